#!/usr/bin/env python3
"""Regenerate MANIFEST.json from propmeta.py (claimed properties = those with harnesses
and a META entry; everything else is listed under not_applicable with its reason)."""
import json, os, re, sys
sys.path.insert(0, os.path.dirname(os.path.abspath(__file__)))
import propmeta

V = os.path.dirname(os.path.abspath(__file__))
props = [json.loads(l) for l in open(os.path.join(V, "properties.jsonl"))]
src = os.path.join(V, "harness", "src")
have = set()
for fn in os.listdir(src):
    if re.fullmatch(r"c\d\d\w*\.rs", fn):
        for m in re.finditer(r"\bc(\d\d)_[qt]_", re.sub(r"//[^\n]*", "", open(os.path.join(src, fn)).read())):
            have.add("C" + m.group(1))

claimed = set(json.load(open(os.path.join(V, "claimed.json"))))
checks, na = [], []
for p in props:
    pid = p["id"]
    meta = propmeta.META.get(pid)
    if pid in claimed and pid in have and meta and not meta.get("not_applicable"):
        checks.append({
            "property_id": pid,
            "quick_cmd": "./check %s --tier quick" % pid,
            "thorough_cmd": "./check %s --tier thorough" % pid,
            "evidence_file": "evidence/%s.json" % pid,
            "replay_cmd_template": "./check replay {path}",
            "engine": "kani+mir2smt" if pid == "C01" else "kani",
            "level_claimed": {
                "category": "model_checking",
                "text": meta.get("level_text", "Bounded model checking of the compiled code of /repo: every harness is one "
                        "SAT query over all values of its symbolic inputs (lengths, contents, arguments) within the stated "
                        "scope, loops unwound with unwinding assertions; histories are covered by one inductive step from an "
                        "arbitrary state satisfying the representation invariant. Bounded, not a proof: " + meta.get("bounds", "")),
                "design_ref": "DESIGN.md section 5, " + pid,
            },
            "level_note": "Trusted: rustc->MIR, Kani's MIR->goto translation and std models, CBMC/CaDiCaL, the hand-written "
                          "oracles (validated natively); outside the claim: " + meta.get("outside", ""),
            "technique": meta.get("technique", "Kani proof harnesses over symbolic inputs, decided by CBMC + CaDiCaL (bounded model checking of the real code); counterexamples replayed natively"),
        })
    else:
        reason = (meta or {}).get("not_applicable") or "check not built yet (work in progress in this build session); no claim is made"
        na.append({"property_id": pid, "reason": reason})

man = {
    "version": 1,
    "setup_cmd": "./check setup",
    "hooks": {
        "guard": "none",
        "enable": "no source hooks: the harness crate /verif/harness depends on /repo by path and uses only its public API "
                  "(Bvf::new/into_inner, Bvd::new/into_inner, Bv::Fixed/Bv::Dynamic)",
        "baseline_off_cmd": "cd /repo && cargo test --workspace --no-fail-fast --offline",
        "source_commits": [],
        "add_only": True,
    },
    "engines": [
        {"name": "kani", "path": "harness", "serves_properties": [c["property_id"] for c in checks],
         "kind_free_text": "Kani 0.68 proof harnesses (CBMC 6.11 + CaDiCaL) over the real crate, driven by ./check; native replay binary for counterexamples"},
        {"name": "mir2smt", "path": "mir2smt", "serves_properties": ["C01"],
         "kind_free_text": "rustc MIR of the 24 word primitives of src/utils.rs translated to SMT-LIB bit-vectors; obligations discharged by z3 4.8.12 and re-checked by cvc5 1.0; counterexamples replayed on a native build of the same source file; run by ./check C01 alongside the Kani harnesses"},
    ],
    "checks": checks,
    "not_applicable": na,
    "notes": "Exit 2 of a check means inconclusive (time-out, memory-out, unsatisfied vacuity witness, non-reproducing counterexample); it is never reported as success.",
}
json.dump(man, open(os.path.join(V, "MANIFEST.json"), "w"), indent=1)
print("claimed:", [c["property_id"] for c in checks], "not applicable:", [n["property_id"] for n in na])
