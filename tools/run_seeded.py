#!/usr/bin/env python3
"""Apply a seeded change to /repo, run checks against it, and undo it straight afterwards.

  tools/run_seeded.py <patch.diff> <Cxx> [<Cyy> ...] [--tier quick|thorough] [--only REGEX]

Prints, per property, the check's exit status and its VIOLATION / summary lines. /repo is
restored with `git checkout -- .` in every case (also on errors / Ctrl-C)."""
import os, subprocess, sys

def run_on_copy(name, patch, props, tier, only):
    wt = "/tmp/seedrun/" + name
    subprocess.run(["git", "-C", "/repo", "worktree", "remove", "--force", wt], capture_output=True)
    os.makedirs("/tmp/seedrun", exist_ok=True)
    subprocess.check_call(["git", "-C", "/repo", "worktree", "add", "-q", "--detach", wt, "HEAD"])
    try:
        if subprocess.run(["git", "-C", wt, "apply", patch]).returncode != 0:
            print("patch does not apply"); return 2
        env = dict(os.environ, VERIF_BUILD_TAG="seed-" + name, VERIF_REPO=wt)
        if only:
            env["VERIF_ONLY"] = only
        for p in props:
            r = subprocess.run(["/verif/check", p, "--tier", tier], cwd="/verif", env=env, capture_output=True, text=True)
            lines = [l for l in r.stdout.splitlines() if l.startswith(("VIOLATION", "KNOWN-FINDING", "NON-REPRODUCING", "FAIL", "INCONCLUSIVE", "  harness", "  primitive")) or " harness runs," in l]
            print("== %s exit %d" % (p, r.returncode)); print("\n".join(lines[:30])); sys.stdout.flush()
    finally:
        subprocess.run(["git", "-C", "/repo", "worktree", "remove", "--force", wt], capture_output=True)
        subprocess.run(["rm", "-rf", "/verif/.build/seed-" + name])
    return 0


def main():
    args = sys.argv[1:]
    tier, only = "quick", None
    if "--tier" in args:
        i = args.index("--tier"); tier = args[i + 1]; del args[i:i + 2]
    if "--only" in args:
        i = args.index("--only"); only = args[i + 1]; del args[i:i + 2]
    copy = None
    if "--copy" in args:  # development aid: apply to a scratch worktree instead of /repo itself
        i = args.index("--copy"); copy = args[i + 1]; del args[i:i + 2]
    patch, props = os.path.abspath(args[0]), args[1:]
    if copy:
        return run_on_copy(copy, patch, props, tier, only)
    st = subprocess.run(["git", "-C", "/repo", "status", "--porcelain", "--untracked-files=no"], capture_output=True, text=True).stdout
    if st.strip():
        print("refusing: /repo has uncommitted changes:\n" + st); return 2
    rc = subprocess.run(["git", "-C", "/repo", "apply", patch]).returncode
    if rc != 0:
        print("patch does not apply"); return 2
    results = {}
    try:
        env = dict(os.environ, VERIF_BUILD_TAG=os.environ.get("VERIF_BUILD_TAG", "seed"))
        if only:
            env["VERIF_ONLY"] = only
        for p in props:
            r = subprocess.run(["/verif/check", p, "--tier", tier], cwd="/verif", env=env, capture_output=True, text=True)
            lines = [l for l in r.stdout.splitlines() if l.startswith(("VIOLATION", "KNOWN-FINDING", "NON-REPRODUCING", "FAIL", "  harness", "  primitive")) or " harness runs," in l or l.startswith("engine S")]
            results[p] = (r.returncode, lines)
            print("== %s exit %d" % (p, r.returncode))
            print("\n".join(lines[:25]))
            sys.stdout.flush()
    finally:
        subprocess.run(["git", "-C", "/repo", "checkout", "--", "."])
    return 0

if __name__ == "__main__":
    sys.exit(main())
