#!/bin/bash
# usage: tools/seed_round3.sh Cxx   -- take /tmp/seed3/Cxx-out/{E.diff,demo_E.rs,notes_E.md} into seeded/staging/Cxx,
# confirm it in a scratch worktree (tools/confirm_seed.py), then run the property's quick check against it the
# prescribed way (git -C /repo apply; ./check; git -C /repo checkout -- .), serialised by a lock on /repo.
cd /verif
p=$1; o=/tmp/seed3/$p-out; s=seeded/staging/$p
cp $o/E.diff $s/E.diff; cp $o/demo_E.rs $s/demo_E.rs; cp $o/notes_E.md $s/notes_E.md
python3 tools/confirm_seed.py $s E $s/confirm_E.json
(
  flock 9
  echo "#### seed $p/E vs $p"
  VERIF_JOBS=${VERIF_JOBS:-16} python3 tools/run_seeded.py $s/E.diff $p | grep -v "^  harness\|^FAIL\|^  primitive"
  git -C /repo checkout -- .
  git -C /repo status --short
) 9>/tmp/seed3/repo.lock > .build/seedm_r3_$p.out 2>&1
tail -5 .build/seedm_r3_$p.out
