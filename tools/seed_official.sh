#!/bin/bash
# usage: tools/seed_official.sh <stop-epoch> "C02 C" "C10 A" ...   run seeded/<Cxx>-<L>/patch.diff the prescribed way:
# git -C /repo apply, ./check Cxx --tier quick, git -C /repo checkout -- .   (tools/run_seeded.py without --copy)
cd /verif
stop=$1; shift
for x in "$@"; do set -- $x
  [ $(date +%s) -ge $stop ] && { echo "stopping: time budget"; break; }
  echo "#### seed $1/$2 vs $1"
  VERIF_JOBS=${VERIF_JOBS:-16} python3 tools/run_seeded.py seeded/$1-$2/patch.diff $1 | grep -v "^  harness\|^FAIL\|^  primitive"
  git -C /repo checkout -- .
done
git -C /repo status --short
