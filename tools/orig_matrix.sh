#!/bin/bash
cd /verif
run() { name=$1; shift; echo "#### seed $name vs $*"; VERIF_JOBS=${VERIF_JOBS:-6} python3 tools/run_seeded.py --copy $name seeded/$name/patch.diff "$@" | grep -v "^  harness\|^FAIL\|^  primitive\|^INCONCLUSIVE"; }
run orig-hash-length C10
run orig-tryfrom-empty C11
run orig-iter-nth-overflow C17
run orig-div-longer-divisor C02
run orig-or-xor-longer-rhs C04 C03
run orig-bvd-addsub-spare-words C01 C03 C18
run orig-shift-u128-amount C05
run orig-prepend-empty C07
run orig-read-surplus-bits C13 C03
run orig-release-capacity-check C19
run orig-read-length-overflow C13
