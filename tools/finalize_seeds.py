#!/usr/bin/env python3
"""Turn seeded/staging/Cxx/{A,B}.* + confirmation records + the logs of the seed runs into
seeded/<id>/{patch.diff, demo.rs, notes.md, meta.json}; update meta.json of the orig-* seeds."""
import glob, json, os, re, shutil
V = "/verif"
props = {json.loads(l)["id"]: json.loads(l) for l in open(V + "/properties.jsonl")}
# ---- parse run logs (chronological by mtime)
runs = {}  # (seed, prop) -> list of {exit, summary, violations}
for f in sorted(glob.glob(V + "/.build/seedm*.out") + glob.glob(V + "/.build/seedrun*.out") + glob.glob(V + "/.build/seedorig.out"), key=os.path.getmtime):
    seed = None; cur = None
    for line in open(f):
        m = re.match(r"#### (?:seed )?(\S+)(?: (\w))? vs (.*)", line)
        if m:
            a, b = m.group(1), m.group(2)
            seed = a if a.startswith("orig-") else (a.replace("/", "-") if "/" in a else "%s-%s" % (a, b))
            continue
        m = re.match(r"== (C\d\d) exit (\d+)", line)
        if m and seed:
            cur = {"exit": int(m.group(2)), "summary": "", "violations": [], "log": os.path.basename(f)}
            runs.setdefault((seed, m.group(1)), []).append(cur)
            continue
        if cur is not None:
            if " harness runs," in line:
                cur["summary"] = line.strip()
            m = re.match(r"VIOLATION property=(C\d\d) replay=\S+/(\w+)\.json", line)
            if m:
                cur["violations"].append(m.group(2))
MISS_NOTES = {
 "C09-E": "first run (quick tier as committed): exit 2, not a violation: the change rewrites Bvd == Bvd on top of a slice comparison, whose byte-wise memcmp loop exceeds the unwind bound of the seven Bvd x Bvd harnesses, so they came back 'unwind bound too small' (inconclusive), not refuted -> c09_q_ordu_bvd1_bvd2 / c09_q_ordu_bvd2_bvd3 added (same oracle, unwind 10 / 18); the second run listed here is those two harnesses only (VERIF_ONLY=c09_q_ordu) against a scratch copy with the change: both refuted, counterexamples reproduce natively",
 "C12-E": "would have been missed by the quick and the thorough tier as committed before this round: the change is exact for every vector of up to 1024 bits and no scope of any property reached past 256 bits -> c12_q_wide_bvd17_to_f64x17 / _into_f64x17 / _to_f32x34 added before the change was first run (1088-bit Bvd source, word-by-word oracle); the run listed here already contains them",
 "C02-C": "first run: exit 2, not a violation: the change makes the division loop run past the harness's unwind bound, which the driver then reported as 'unwind bound too small' -> the driver now replays such traces natively (violation iff the native run fails) and c02_q_divbig_* were added",
 "C02-D": "caught on its first full run, but only because c02_q_divq2ops_f8x1_f16x1 (the / and % operator forms on one-word vectors of different word types) had been added minutes before while preparing for this batch; the quick tier as committed before would have missed it (div8 x Bvf<u16,1> is thorough-only)",
 "C10-C": "the change breaks Bvf::resize (stale word after shrinking to a word boundary), which then makes Hash disagree with Eq; C10's harnesses start from Inv states and never resize, so C10 itself exits 0 - it is caught by C07 (and C03), which own that behaviour",
 "C10-D": "the change drops the final mask of Bvf |=, ^= with a heap operand; C10 itself exits 0 (Inv pre-states) - it is caught by C04 (and C03)",
 "C14-C": "first run: exit 2 (Kani failed the harness but the playback was empty, so nothing could be replayed; and the stub ignored the formatter state) -> the pad_integral stub now records width/fill/alignment/flags for a symbolic format specification and c14_q_dec_bvdyn1_l3 was added",
 "C14-D": "NOT reported as a violation: the change re-implements Bvd hex formatting on top of write!/format machinery, every harness that reaches it (stubbed and end-to-end) exceeds its time budget under the change -> the check exits 2 (inconclusive) in both tiers. The change does not pass silently, but it is not demonstrated either. A further attempt with a structurally sparse operand (low word concretely zero, 6-bit symbolic high word, end-to-end byte comparison) passes on the real tree in 20-150 s but still exceeds 1500 s per harness under the change (alloc::fmt::format per word), so it was not kept; stubbing fmt::format would hide exactly the behaviour the change alters",
 "C01-C": "first run: exit 0 only because the scratch-copy mode skipped engine S at the time; with engine S following the copy, the usize::cadd obligation is refuted and replayed (prim_usize_cadd)",
 "C03-D": "first run: quick tier exit 0 (missed): no Bvd x Bvf multiplication at a length that is not a multiple of 64 -> c03_q_heap_mul_* and c01_q_mul_bvd2_l100_f64x2 / _l70_bvfix added",
 "C09-C": "first run: quick tier exit 0 (missed): no heap Bv longer than the Bvf's capacity -> c09_q_pc_bvdyn1s_f8x1 etc. added",
 "C09-D": "the change breaks Bvd::resize (hidden state); C09's harnesses start from Inv states and never resize, so C09 itself does not see it (exit 0) - it is caught by C07 and C03, which own that behaviour",
 "C11-D": "first run: quick tier exit 0 (missed): no slice of elements narrower than the word overshooting the capacity by less than a word -> c11_q_slice_u8_to_f16x1 etc. added",
 "C13-D": "first run: quick tier exit 0 (missed): every writer accepted whole buffers -> c13_q_writechunk_* / c13_q_writeshort_* added",
 "C18-D": "first run: exit 2, no failure (missed): C18 had no fixed-capacity growth harness (C19 catches the same change) -> c18_q_fixed_grow_*_pb added",
 "C20-C": "first run: quick tier exit 0 (missed): no /=, %= of an inline Bv by a heap operand longer than 128 bits -> c20_q_div_ar_afixl3_bvd3top / rem added (divisor with a concrete top word so that allocation sizes are constant)",
 "C20-D": "first run: quick tier exit 0 (missed): all forms of one pairing agree with each other (wrongly); the integer-vs-vector comparison used a vector of the integer's width -> c20_q_add/sub_f64x3_u64_vs_f64x1 and c01_q_addsub_f8x3_f8x1 etc. added",
 "C01-B": "first run: quick tier exit 0 (missed): only 2-word Bvd subjects were in the quick tier and the lost carry needs a third word -> c01_q_add_bvd3_bvd3 / c01_q_sub_bvd3_bvd2 promoted from thorough to quick",
 "C14-B": "first run: quick tier exit 0 (missed): decimal formatting was thorough-only -> c14_q_dec_bvfix_l3 added to quick",
 "C10-B": "first run: quick tier exit 0 (missed): no harness used the storage-less empty Bvd -> c10_q_hash_bvd0_* / c10_q_hash_bvdyn0_* added",
 "C09-B": "first run: quick tier exit 0 (missed): no Bvd x Bvf<u128,N> pairing -> c09_q_eq_bvd1s_f128x1 etc. added",
 "C06-B": "first run: exit 2 (inconclusive: the slice::rotate fast path timed the symbolic-amount harnesses out) -> concrete whole-word rotations c06_q_rot*_l*_k* added",
 "C07-B": "first run: quick tier exit 0 (missed): every extend harness used an exact-size-hint iterator -> c07_q_extendnohint_* added",
 "C08-A": "first run: quick tier exit 0 (missed): no one-word Bvf subject -> c08_q_range_f8x1/f16x1/f64x1, c08_q_split_f8x1 added",
 "C15-B": "first run: quick tier exit 0 (missed): Bvd parsing was only tractable for 0-1 characters -> count-pinning stub and c15_q_binmb2_bvd_n1 etc. added",
 "C20-A": "first run: quick tier exit 0 (missed by C20; C05 catches the same site): no u128 amount for the hand-written &Bvd shifts -> c20_q_sh*_bvd*_u128 added",
 "C20-B": "first run: quick tier exit 0 (missed): no storage-less operand -> c20_q_mul_bvd1l8_bvd0 etc. added",
}
def caught(seed, breaks):
    out = {}
    for p in breaks:
        rs = runs.get((seed, p), [])
        if not rs:
            out[p] = {"verdict": "not run against this property's check"}
            continue
        last = rs[-1]
        v = {1: "CAUGHT by the quick tier (VIOLATION with a natively reproducing replay; harnesses: %s)" % ", ".join(last["violations"][:3]),
             0: "MISSED by the quick tier (exit 0)", 2: "INCONCLUSIVE (exit 2)"}.get(last["exit"], "exit %d" % last["exit"])
        out[p] = {"verdict": v, "runs": [{"exit": r["exit"], "summary": r["summary"]} for r in rs]}
        if seed in MISS_NOTES and p == seed[:3]:
            out[p]["history"] = MISS_NOTES[seed]
            out[p]["verdict"] += " - see history"
    return out
# ---- independent seeds
for d in sorted(glob.glob(V + "/seeded/staging/C*")):
    pid = os.path.basename(d)
    for x in "ABCDE":
        if not os.path.exists(d + "/%s.diff" % x):
            continue
        nf = d + ("/notes.md" if x in "AB" else "/notes2.md" if x in "CD" else "/notes_E.md")
        notes = open(nf).read()
        sid = "%s-%s" % (pid, x)
        out = V + "/seeded/" + sid
        os.makedirs(out, exist_ok=True)
        shutil.copy(d + "/%s.diff" % x, out + "/patch.diff")
        shutil.copy(d + "/demo_%s.rs" % x, out + "/demo.rs")
        shutil.copy(nf, out + "/notes.md")
        conf = json.load(open(d + "/confirm_%s.json" % x)) if os.path.exists(d + "/confirm_%s.json" % x) else {}
        first = open(out + "/patch.diff").read()
        files = sorted(set(re.findall(r"^\+\+\+ b/(\S+)", first, re.M)))
        # one-line description: the heading of the notes' section for this change + its first paragraph
        what = ""
        lines = notes.splitlines()
        for i, l in enumerate(lines):
            if re.match(r"^#+\s*(?:\d+\.\s*)?(?:Change|Seed|Mutation|Regression)?\s*%s\b" % x, l.strip(), re.I) and len(l) > 6:
                head = re.sub(r"^#+\s*", "", l).strip()
                para = []
                for m2 in lines[i + 1:]:
                    if m2.startswith("#") and para:
                        break
                    if m2.strip() and not m2.startswith("#"):
                        para.append(m2.strip())
                    elif para:
                        break
                what = (head + " - " + " ".join(para))[:420]
                break
        if not what:
            what = re.sub(r"\s+", " ", notes[:300]).strip()
        also = {"C09-D": ["C07", "C03"], "C20-D": ["C01"], "C03-D": ["C01"], "C10-C": ["C07"], "C10-D": ["C04"], "C19-D": ["C12"]}.get(sid, [])
        meta = {"id": sid, "breaks": [pid] + also, "files": files,
                "origin": ("written by an independent sub-agent that was given only the text of property %s and a scratch worktree of /repo (nothing from /verif)" % pid)
                          + ("" if x in "AB" else "; second round: additionally told which two code sites the first round had already used, and to look elsewhere" if x in "CD" else "; third round: additionally told which four code sites the earlier rounds had already used, and to look elsewhere"),
                "what": what, "needs_to_manifest": "see notes.md (section for change %s)" % x,
                "demo": "demo.rs: integration test(s) using only the public API; fails with the change, passes without",
                "confirmed": conf, "caught": caught(sid, [pid] + also)}
        json.dump(meta, open(out + "/meta.json", "w"), indent=1)
# ---- original defects
for f in glob.glob(V + "/seeded/orig-*/meta.json"):
    m = json.load(open(f))
    m["caught"] = caught(m["id"], m["breaks"])
    json.dump(m, open(f, "w"), indent=1)
tot = 0; c = 0
for f in glob.glob(V + "/seeded/*/meta.json"):
    m = json.load(open(f))
    for p, r in m.get("caught", {}).items():
        tot += 1; c += r["verdict"].startswith("CAUGHT")
print("seed x property pairs:", tot, "caught:", c)
