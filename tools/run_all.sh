#!/bin/bash
# usage: tools/run_all.sh quick|thorough [props...]   (sequential; writes evidence/Cxx.json)
cd /verif
tier=$1; shift
props=${@:-C01 C02 C03 C04 C05 C06 C07 C08 C09 C10 C11 C12 C13 C14 C15 C16 C17 C18 C19 C20}
for p in $props; do
  s=$(date +%s); ./check $p --tier $tier > .build/final-$tier-$p.out 2>&1; rc=$?
  echo "$p $tier exit $rc wall $(( $(date +%s) - s ))s :: $(grep ' harness runs,' .build/final-$tier-$p.out | tail -1)"
done
