#!/bin/bash
# usage: tools/seed_matrix.sh "C02 A C02" "C03 B C03,C04" ...   (seed-property letter check-properties)
cd /verif
for x in "$@"; do set -- $x; echo "#### seed $1/$2 vs ${3//,/ }"; VERIF_JOBS=${VERIF_JOBS:-6} python3 tools/run_seeded.py --copy $1$2 seeded/staging/$1/$2.diff ${3//,/ } | grep -v "^  harness\|^FAIL\|^  primitive"; done
