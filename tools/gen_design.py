#!/usr/bin/env python3
"""Assemble DESIGN.md from design_parts/*.md plus the generated section 5 (per-property
coverage from meta/Cxx.json, seeded changes from seeded/*/meta.json)."""
import glob, json, os, textwrap
V = os.path.dirname(os.path.dirname(os.path.abspath(__file__)))
props = [json.loads(l) for l in open(os.path.join(V, "properties.jsonl"))]
seeds = []
for f in sorted(glob.glob(os.path.join(V, "seeded", "*", "meta.json"))):
    m = json.load(open(f)); m["dir"] = os.path.basename(os.path.dirname(f)); seeds.append(m)
def wrap(s, ind="  "):
    return "\n".join(textwrap.wrap(s, 92, initial_indent=ind, subsequent_indent=ind))
out = ["## 5. Per-property coverage as built\n",
       "Generated from `meta/Cxx.json` (the text each check copies into its evidence) and",
       "`seeded/*/meta.json`. \"Caught by\" names the tier of the property's own check that reports a",
       "reproducing `VIOLATION` with the change applied to `/repo`.\n"]
# ---- summary of the seeded changes
ind = [s for s in seeds if not s["dir"].startswith("orig-")]
orig = [s for s in seeds if s["dir"].startswith("orig-")]
def own(s):
    return s.get("caught", {}).get(s["breaks"][0], {})
caught_own = [s for s in ind if own(s).get("verdict", "").startswith("CAUGHT")]
elsewhere = [s for s in ind if not own(s).get("verdict", "").startswith("CAUGHT") and any(r.get("verdict", "").startswith("CAUGHT") for r in s.get("caught", {}).values())]
notcaught = [s for s in ind if not any(r.get("verdict", "").startswith("CAUGHT") for r in s.get("caught", {}).values())]
hist = [s for s in ind if any("history" in r for r in s.get("caught", {}).values())]
out += ["### Seeded changes: summary\n",
        "%d changes written by independent sub-agents (given only a property's text and a scratch worktree; three rounds - four per property in the first two, a fifth for C06, C09, C11, C12, C13, C16 in the third - the later rounds told which code sites the earlier ones had used) and %d original defects (reverse of each `fix:` commit). Every one was confirmed in a scratch worktree: applies, the pinned suite still passes (235 + 49), the demonstration fails with it and passes without." % (len(ind), len(orig)),
        "Final state: %d of the %d independent changes are reported as a reproducing `VIOLATION` by the quick tier of the check of the property they were written against, %d more by the check that owns the behaviour they actually break (%s), %d are not reported as a violation (%s). All %d original defects are caught." % (
            len(caught_own), len(ind), len(elsewhere), ", ".join(s["dir"] for s in elsewhere) or "-", len(notcaught), ", ".join(s["dir"] for s in notcaught) or "-", len(orig)),
        "**%d of the independent changes were missed (exit 0 or exit 2) by the checks as they stood when the change was first run**; each led to new harnesses or a driver change, listed as `history` in the change's `meta.json` and under the property below: %s.\n" % (len(hist), ", ".join(s["dir"] for s in hist))]
for p in props:
    pid = p["id"]
    mf = os.path.join(V, "meta", pid + ".json")
    m = json.load(open(mf)) if os.path.exists(mf) else {}
    out.append("### %s — %s\n" % (pid, p["title"]))
    out.append("* **Covered (bounds):**\n" + wrap(m.get("bounds", "(no check)")))
    out.append("* **Outside:**\n" + wrap(m.get("outside", "")))
    if m.get("stubs"):
        out.append("* **Stubs:** " + "; ".join(m["stubs"]))
    if m.get("assumptions"):
        out.append("* **Assumptions:** " + "; ".join(m["assumptions"]))
    mine = [s for s in seeds if pid in s.get("breaks", [])]
    if mine:
        out.append("* **Seeded changes:**")
        for s in mine:
            c = s.get("caught", {}).get(pid, {})
            verdict = c.get("verdict", "not yet run")
            out.append("  - `%s` — %s → %s" % (s["dir"], s.get("what", "")[:220], verdict))
            if c.get("history"):
                out.append("    - history: " + c["history"])
    out.append("")
parts = sorted(glob.glob(os.path.join(V, "design_parts", "*.md")))
text = ""
for f in parts:
    if os.path.basename(f).startswith("90_"):
        text += "\n".join(out) + "\n"
    text += open(f).read().rstrip() + "\n\n"
open(os.path.join(V, "DESIGN.md"), "w").write(text)
print("DESIGN.md written,", len(text.splitlines()), "lines")
