#!/usr/bin/env python3
"""Assemble DESIGN.md from design_parts/*.md plus the generated section 5 (per-property
coverage from meta/Cxx.json, seeded changes from seeded/*/meta.json)."""
import glob, json, os, textwrap
V = os.path.dirname(os.path.dirname(os.path.abspath(__file__)))
props = [json.loads(l) for l in open(os.path.join(V, "properties.jsonl"))]
seeds = []
for f in sorted(glob.glob(os.path.join(V, "seeded", "*", "meta.json"))):
    m = json.load(open(f)); m["dir"] = os.path.basename(os.path.dirname(f)); seeds.append(m)
def wrap(s, ind="  "):
    return "\n".join(textwrap.wrap(s, 92, initial_indent=ind, subsequent_indent=ind))
out = ["## 5. Per-property coverage as built\n",
       "Generated from `meta/Cxx.json` (the text each check copies into its evidence) and",
       "`seeded/*/meta.json`. \"Caught by\" names the tier of the property's own check that reports a",
       "reproducing `VIOLATION` with the change applied to `/repo`.\n"]
for p in props:
    pid = p["id"]
    mf = os.path.join(V, "meta", pid + ".json")
    m = json.load(open(mf)) if os.path.exists(mf) else {}
    out.append("### %s — %s\n" % (pid, p["title"]))
    out.append("* **Covered (bounds):**\n" + wrap(m.get("bounds", "(no check)")))
    out.append("* **Outside:**\n" + wrap(m.get("outside", "")))
    if m.get("stubs"):
        out.append("* **Stubs:** " + "; ".join(m["stubs"]))
    if m.get("assumptions"):
        out.append("* **Assumptions:** " + "; ".join(m["assumptions"]))
    mine = [s for s in seeds if pid in s.get("breaks", [])]
    if mine:
        out.append("* **Seeded changes:**")
        for s in mine:
            c = s.get("caught", {}).get(pid, {})
            verdict = c.get("verdict", "not yet run")
            out.append("  - `%s` — %s → %s" % (s["dir"], s.get("what", ""), verdict))
    out.append("")
parts = sorted(glob.glob(os.path.join(V, "design_parts", "*.md")))
text = ""
for f in parts:
    if os.path.basename(f).startswith("90_"):
        text += "\n".join(out) + "\n"
    text += open(f).read().rstrip() + "\n\n"
open(os.path.join(V, "DESIGN.md"), "w").write(text)
print("DESIGN.md written,", len(text.splitlines()), "lines")
