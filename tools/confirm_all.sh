#!/bin/bash
# Sequentially (re)confirm every staged seed that lacks a complete confirmation record.
cd /verif
for d in seeded/staging/C*; do p=$(basename $d); for x in A B C D; do [ -f $d/$x.diff ] || continue;
  f=$d/confirm_$x.json
  ok=$(python3 -c "
import json,sys
try:
    d=json.load(open('$f')); print(int(bool(d.get('suite_passes_with_change') and d.get('demo_fails_with_change') and d.get('demo_passes_without_change') and d.get('patch_applies'))))
except Exception: print(0)")
  if [ "$ok" != "1" ]; then
    extra=""; grep -qi "release" $d/notes.md 2>/dev/null && [ $p = C19 ] && [ $x = B ] && extra="--release-demo"
    nice -n 5 python3 tools/confirm_seed.py $d $x $f $extra
  fi
done; done
