#!/usr/bin/env python3
"""Confirm a seeded change in a scratch worktree of /repo (removed afterwards):
  - the demonstration passes on the unchanged tree,
  - with the change applied the crate builds, the pinned test-suite passes, and the
    demonstration fails.
Usage: tools/confirm_seed.py <dir with X.diff + demo_X.rs> <X> <out meta.json> [--release-demo]"""
import json, os, subprocess, sys, time
d, x, out = sys.argv[1], sys.argv[2], sys.argv[3]
rel = "--release-demo" in sys.argv
wt = "/tmp/seedconfirm/%s_%s" % (os.path.basename(os.path.abspath(d)), x)
env = dict(os.environ, CARGO_NET_OFFLINE="true")
def sh(cmd, cwd=wt):
    r = subprocess.run(cmd, cwd=cwd, env=env, capture_output=True, text=True)
    return r.returncode, (r.stdout + r.stderr)
subprocess.run(["git", "-C", "/repo", "worktree", "remove", "--force", wt], capture_output=True)
os.makedirs("/tmp/seedconfirm", exist_ok=True)
subprocess.check_call(["git", "-C", "/repo", "worktree", "add", "-q", "--detach", wt, "HEAD"])
res = {}
try:
    os.makedirs(wt + "/tests", exist_ok=True)
    demo = "demo_seed"
    open("%s/tests/%s.rs" % (wt, demo), "w").write(open("%s/demo_%s.rs" % (d, x)).read())
    dcmd = ["cargo", "test", "--offline", "--test", demo] + (["--release"] if rel else [])
    rc, o = sh(dcmd); res["demo_passes_without_change"] = rc == 0
    rc, o = sh(["git", "apply", os.path.abspath("%s/%s.diff" % (d, x))]); res["patch_applies"] = rc == 0
    rc, o = sh(dcmd); res["demo_fails_with_change"] = rc != 0
    res["demo_failure_tail"] = "\n".join(l for l in o.splitlines() if l.startswith(("test ", "test result")))[-600:]
    os.remove("%s/tests/%s.rs" % (wt, demo))
    t0 = time.time()
    rc, o = sh(["cargo", "test", "--workspace", "--no-fail-fast", "--offline"])
    tail = [l for l in o.splitlines() if l.startswith("test result")]
    res["suite_passes_with_change"] = rc == 0
    res["suite_result_lines"] = tail
    res["suite_wall_s"] = round(time.time() - t0)
    res["ran"] = "scratch worktree of /repo HEAD %s: cargo test --offline --test demo (clean: pass; changed: fail); cargo test --workspace --no-fail-fast --offline with the change" % subprocess.run(["git", "-C", "/repo", "rev-parse", "--short", "HEAD"], capture_output=True, text=True).stdout.strip()
finally:
    subprocess.run(["git", "-C", "/repo", "worktree", "remove", "--force", wt], capture_output=True)
json.dump(res, open(out, "w"), indent=1)
print(x, d, {k: v for k, v in res.items() if isinstance(v, bool)})
