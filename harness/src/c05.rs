//! C05 harnesses (not written yet).
