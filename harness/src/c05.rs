//! C05 — shifts are logical, length-preserving and zero-fill for every shift amount.
//!
//! Oracle on the model value `(n, v)` and the amount `k` widened to u128 (so that amounts
//! above usize::MAX are first-class):
//!   a << k : k >= n -> 0, else (v << k) mod 2^n        a >> k : k >= n -> 0, else v >> k
//! compared with the *raw storage* of the result (padding bits and spare words included),
//! length unchanged. The Bvf harnesses additionally assert the statement's own wording for
//! a symbolic index i ("bit i of the result is a's bit i-k resp. i+k when that index lies
//! in 0..n and zero otherwise").
//!   shl_in(b): n = 0 -> returns b, nothing changes; else returns bit n-1, value becomes
//!              ((v << 1) | b) mod 2^n.      shr_in(b): returns bit 0, value (v >> 1) | b << (n-1).
use crate::big::Big;
use crate::nd;
use crate::scopes::*;
use bva::{Bit, BitVector, Bv, Bvd, Bvf};

#[inline(always)]
fn shl_model(v: Big, n: usize, k: u128) -> Big {
    if k >= n as u128 {
        Big::ZERO
    } else {
        v.shl(k as usize).trunc(n)
    }
}

#[inline(always)]
fn shr_model(v: Big, n: usize, k: u128) -> Big {
    if k >= n as u128 {
        Big::ZERO
    } else {
        v.shr(k as usize)
    }
}

/// Witnesses. `multi`: scope with >= 2 words of `$B` bits and symbolic length; `hi`: the
/// same restricted to lengths that use every word (no spare word possible); `single`:
/// one-word scope; `lat`: concrete length (lattice harnesses), where the corner named must
/// exist for that particular length or the witness degenerates.
macro_rules! shift_wit {
    (hi, $B:literal, $T:ident, $n:ident, $k:ident, $kk:ident, $v:ident, $cap:expr) => {
        w!($kk == 0 && !$v.is_zero(), "k = 0 on a non-zero vector");
        w!($n > $B && $kk > 0 && $kk < $n as u128 && $kk % $B == 0 && $v.bit(0) && $v.bit($n - 1),
           "k a non-zero multiple of the word size below n, both end bits set");
        w!($n > $B && $n % $B == 0 && $kk == $n as u128 - 1 && $v.bit(0) && $v.bit($n - 1),
           "len a multiple of the word size, k = n - 1, both end bits set");
        w!($n > 0 && $kk == $n as u128 && !$v.is_zero(), "k = n on a non-zero vector");
        w!($n > $B && $n % $B == 0 && $kk == $n as u128 + 1 && $v.bit($n - 1), "len a multiple of the word size, k = n + 1");
        w!($k == <$T>::MAX && !$v.is_zero(), "k = maximum of its type (u128: far above usize::MAX)");
    };
    (multi, $B:literal, $T:ident, $n:ident, $k:ident, $kk:ident, $v:ident, $cap:expr) => {
        shift_wit!(hi, $B, $T, $n, $k, $kk, $v, $cap);
        w!($cap >= $n + $B && $kk > 0 && $kk < $n as u128 && $v.bit(0) && $v.bit($n - 1),
           "proper shift on a vector with a spare storage word, both end bits set");
    };
    (single, $B:literal, $T:ident, $n:ident, $k:ident, $kk:ident, $v:ident, $cap:expr) => {
        w!($kk == 0 && !$v.is_zero(), "k = 0 on a non-zero vector");
        w!($n == $B && $kk == $n as u128 - 1 && $v.bit(0) && $v.bit($n - 1), "len exactly the word size, k = n - 1, both end bits set");
        w!($n > 0 && $kk == $n as u128 && !$v.is_zero(), "k = n on a non-zero vector");
        w!($n == $B && $kk == $n as u128 + 1 && $v.bit($n - 1), "len exactly the word size, k = n + 1");
        w!($k == <$T>::MAX && !$v.is_zero(), "k = maximum of its type (u128: far above usize::MAX)");
    };
    (lat, $B:literal, $T:ident, $n:ident, $k:ident, $kk:ident, $v:ident, $cap:expr) => {
        w!($kk == $n as u128 && ($n == 0 || $v.bit($n - 1)), "k = n, top bit set unless empty");
        w!($n < 2 || ($kk == $n as u128 - 1 && $v.bit(0) && $v.bit($n - 1)), "k = n - 1, both end bits set (len >= 2)");
        w!($n <= $B || ($kk == $B && $v.bit(0) && $v.bit($n - 1)), "k = word size, both end bits set (len > word size)");
        w!($k == <$T>::MAX && ($n == 0 || !$v.is_zero()), "k = maximum of its type (u128: far above usize::MAX)");
    };
}

/// Symbolic length in `lo..=hi`.
#[inline(always)]
fn lenin(lo: usize, hi: usize) -> usize {
    let l = nd::upto(hi);
    nd::assume(l >= lo);
    l
}

/// Apply one shift to a `Bvf` (`Copy`): `assign` = the implementing `op=` form; `others` =
/// symbolic choice among the five wrapper forms.
macro_rules! shift_apply {
    (assign, $a:ident, $k:ident, $op:tt, $opa:tt) => {{
        let mut b = $a;
        b $opa $k;
        b
    }};
    (others, $a:ident, $k:ident, $op:tt, $opa:tt) => {{
        let form = nd::upto(4);
        if form == 0 {
            $a $op $k
        } else if form == 1 {
            $a $op &$k
        } else if form == 2 {
            (&$a) $op $k
        } else if form == 3 {
            (&$a) $op (&$k)
        } else {
            let mut b = $a;
            b $opa &$k;
            b
        }
    }};
}

/// `Bvf` subject (nothing allocates): one direction, one amount type, the form set `$forms`.
macro_rules! h_shift_f {
    ($name:ident, $unw:literal, $a:expr, $T:ident, $kind:ident, $B:literal, $model:ident, $left:literal, $forms:ident, $op:tt, $opa:tt) => {
        harness!($name, $unw, {
            let (a, ra) = $a;
            let n = ra.len;
            let v = ra.v;
            let k: $T = nd::$T();
            let kk = k as u128;
            shift_wit!($kind, $B, $T, n, k, kk, v, ra.cap);
            let res = shift_apply!($forms, a, k, $op, $opa);
            let r = res.into_raw();
            assert!(r.len == n, "C05: shift changed the length");
            assert!(r.v == $model(v, n, kk), "C05: storage after shift != logical shift of the value within len");
            assert!(a.into_raw() == ra, "C05: operand of a by-reference shift modified");
            // the statement, literally
            if n > 0 {
                let i = nd::upto(n - 1);
                let src = if $left {
                    kk <= i as u128 && v.bit(i - k as usize)
                } else {
                    kk < (n - i) as u128 && v.bit(i + k as usize)
                };
                assert!(r.v.bit(i) == src, "C05: result bit i != source bit i-k / i+k (zero when outside 0..n)");
            }
        });
    };
}
macro_rules! h_shl_f {
    ($name:ident, $unw:literal, $a:expr, $T:ident, $kind:ident, $B:literal, $forms:ident) => {
        h_shift_f!($name, $unw, $a, $T, $kind, $B, shl_model, true, $forms, <<, <<=);
    };
}
macro_rules! h_shr_f {
    ($name:ident, $unw:literal, $a:expr, $T:ident, $kind:ident, $B:literal, $forms:ident) => {
        h_shift_f!($name, $unw, $a, $T, $kind, $B, shr_model, false, $forms, >>, >>=);
    };
}

/// Heap-backed subject, owning forms (`a <<= k`, `a << k`, ... by value): one operator, one
/// form, one amount type per harness. `$body` uses the identifiers given as `$a`, `$k` and
/// evaluates to the resulting vector.
macro_rules! h_shift_own {
    ($name:ident, $unw:literal, $gen:expr, $T:ident, $model:ident, $kind:ident, $a:ident, $k:ident, $body:expr) => {
        harness!($name, $unw, {
            let (mut $a, ra) = $gen;
            let n = ra.len;
            let v = ra.v;
            let $k: $T = nd::$T();
            let kk = $k as u128;
            shift_wit!($kind, 64, $T, n, $k, kk, v, ra.cap);
            let r = ($body).into_raw();
            assert!(r.len == n, "C05: shift changed the length");
            assert!(r.v == $model(v, n, kk), "C05: storage after shift != logical shift of the value within len");
            assert!(r.len <= r.cap, "C05: len > capacity");
        });
    };
}

/// Heap-backed subject, by-reference forms (`&a << k`: for `Bvd` a separate implementation
/// that allocates by length): the operand must be untouched.
macro_rules! h_shift_ref {
    ($name:ident, $unw:literal, $gen:expr, $T:ident, $model:ident, $kind:ident, $a:ident, $k:ident, $body:expr) => {
        harness!($name, $unw, {
            let ($a, ra) = $gen;
            let n = ra.len;
            let v = ra.v;
            let $k: $T = nd::$T();
            let kk = $k as u128;
            shift_wit!($kind, 64, $T, n, $k, kk, v, ra.cap);
            let r = ($body).into_raw();
            assert!(r.len == n, "C05: shift changed the length");
            assert!(r.v == $model(v, n, kk), "C05: storage after shift != logical shift of the value within len");
            assert!(r.len <= r.cap, "C05: len > capacity");
            assert!($a.into_raw() == ra, "C05: operand of a by-reference shift modified");
        });
    };
}

/// shl_in / shr_in on a `Bvf` (symbolic choice between the two).
macro_rules! h_shin_f {
    ($name:ident, $unw:literal, $a:expr) => {
        harness!($name, $unw, {
            let (mut a, ra) = $a;
            let n = ra.len;
            let v = ra.v;
            let b = nd::bool();
            let bit = if b { Bit::One } else { Bit::Zero };
            let left = nd::bool();
            w!(n == 0 && b, "empty vector, bit one supplied");
            w!(n > 0 && n == ra.cap && b && !v.bit(n - 1) && !v.bit(0), "full capacity, one shifted in, zero falls off");
            w!(n > 1 && n < ra.cap && !b && v.bit(n - 1) && v.bit(0), "partial, zero shifted in, one falls off");
            w!(n == 1, "single bit");
            let (out, want, want_out) = if left {
                let o = a.shl_in(bit);
                if n == 0 {
                    (o, v, b)
                } else {
                    (o, v.shl(1).or(Big::lo(b as u128)).trunc(n), v.bit(n - 1))
                }
            } else {
                let o = a.shr_in(bit);
                if n == 0 {
                    (o, v, b)
                } else {
                    (o, v.shr(1).or(Big::lo(b as u128).shl(n - 1)), v.bit(0))
                }
            };
            let r = a.into_raw();
            assert!(r.len == n, "C05: shl_in/shr_in changed the length");
            assert!(r.v == want, "C05: storage after shl_in/shr_in != one-position shift with the supplied bit entering");
            assert!((out == Bit::One) == want_out, "C05: shl_in/shr_in did not return the bit that fell off (the supplied bit when empty)");
        });
    };
}

/// shl_in on a heap-backed subject.
macro_rules! h_shlin_d {
    ($name:ident, $unw:literal, $a:expr) => {
        harness!($name, $unw, {
            let (mut a, ra) = $a;
            let n = ra.len;
            let v = ra.v;
            let b = nd::bool();
            let bit = if b { Bit::One } else { Bit::Zero };
            w!(n == 0 && b, "empty vector, bit one supplied");
            w!(n > 0 && n % 64 == 0 && b && !v.bit(n - 1), "len a multiple of the word size, one shifted in, zero falls off");
            w!(n % 64 != 0 && !b && v.bit(n - 1), "partial top word, zero shifted in, one falls off");
            let out = a.shl_in(bit);
            let r = a.into_raw();
            let (want, want_out) = if n == 0 { (v, b) } else { (v.shl(1).or(Big::lo(b as u128)).trunc(n), v.bit(n - 1)) };
            assert!(r.len == n, "C05: shl_in changed the length");
            assert!(r.v == want, "C05: storage after shl_in != ((v << 1) | bit) mod 2^len");
            assert!((out == Bit::One) == want_out, "C05: shl_in did not return the bit that fell off (the supplied bit when empty)");
        });
    };
}

macro_rules! h_shrin_d {
    ($name:ident, $unw:literal, $a:expr) => {
        harness!($name, $unw, {
            let (mut a, ra) = $a;
            let n = ra.len;
            let v = ra.v;
            let b = nd::bool();
            let bit = if b { Bit::One } else { Bit::Zero };
            w!(n == 0 && b, "empty vector, bit one supplied");
            w!(n > 0 && n % 64 == 0 && b && !v.bit(0), "len a multiple of the word size, one shifted in, zero falls off");
            w!(n % 64 != 0 && !b && v.bit(0), "partial top word, zero shifted in, one falls off");
            let out = a.shr_in(bit);
            let r = a.into_raw();
            let (want, want_out) = if n == 0 { (v, b) } else { (v.shr(1).or(Big::lo(b as u128).shl(n - 1)), v.bit(0)) };
            assert!(r.len == n, "C05: shr_in changed the length");
            assert!(r.v == want, "C05: storage after shr_in != (v >> 1) | bit << (len-1)");
            assert!((out == Bit::One) == want_out, "C05: shr_in did not return the bit that fell off (the supplied bit when empty)");
        });
    };
}

// ---- Bvf subjects: the implementing `<<=` / `>>=` for every amount type ... ------------------
h_shl_f!(c05_q_shl_f8x2_u8, 6, f8x2(anylen(16)), u8, multi, 8, assign);
h_shr_f!(c05_q_shr_f8x2_u8, 6, f8x2(anylen(16)), u8, multi, 8, assign);
h_shl_f!(c05_q_shl_f8x2_u16, 6, f8x2(anylen(16)), u16, multi, 8, assign);
h_shr_f!(c05_q_shr_f8x2_u16, 6, f8x2(anylen(16)), u16, multi, 8, assign);
h_shl_f!(c05_q_shl_f8x2_u32, 6, f8x2(anylen(16)), u32, multi, 8, assign);
h_shr_f!(c05_q_shr_f8x2_u32, 6, f8x2(anylen(16)), u32, multi, 8, assign);
h_shl_f!(c05_q_shl_f8x2_u64, 6, f8x2(anylen(16)), u64, multi, 8, assign);
h_shr_f!(c05_q_shr_f8x2_u64, 6, f8x2(anylen(16)), u64, multi, 8, assign);
h_shl_f!(c05_q_shl_f8x2_u128, 6, f8x2(anylen(16)), u128, multi, 8, assign);
h_shr_f!(c05_q_shr_f8x2_u128, 6, f8x2(anylen(16)), u128, multi, 8, assign);
h_shl_f!(c05_q_shl_f8x2_usize, 6, f8x2(anylen(16)), usize, multi, 8, assign);
h_shr_f!(c05_q_shr_f8x2_usize, 6, f8x2(anylen(16)), usize, multi, 8, assign);
// ... and the five wrapper forms (a op k, a op &k, &a op k, &a op &k, a op= &k), every amount type
h_shl_f!(c05_q_shlw_f8x2_u8, 6, f8x2(anylen(16)), u8, multi, 8, others);
h_shr_f!(c05_q_shrw_f8x2_u8, 6, f8x2(anylen(16)), u8, multi, 8, others);
h_shl_f!(c05_q_shlw_f8x2_u16, 6, f8x2(anylen(16)), u16, multi, 8, others);
h_shr_f!(c05_q_shrw_f8x2_u16, 6, f8x2(anylen(16)), u16, multi, 8, others);
h_shl_f!(c05_q_shlw_f8x2_u32, 6, f8x2(anylen(16)), u32, multi, 8, others);
h_shr_f!(c05_q_shrw_f8x2_u32, 6, f8x2(anylen(16)), u32, multi, 8, others);
h_shl_f!(c05_q_shlw_f8x2_u64, 6, f8x2(anylen(16)), u64, multi, 8, others);
h_shr_f!(c05_q_shrw_f8x2_u64, 6, f8x2(anylen(16)), u64, multi, 8, others);
h_shl_f!(c05_q_shlw_f8x2_u128, 6, f8x2(anylen(16)), u128, multi, 8, others);
h_shr_f!(c05_q_shrw_f8x2_u128, 6, f8x2(anylen(16)), u128, multi, 8, others);
h_shl_f!(c05_q_shlw_f8x2_usize, 6, f8x2(anylen(16)), usize, multi, 8, others);
h_shr_f!(c05_q_shrw_f8x2_usize, 6, f8x2(anylen(16)), usize, multi, 8, others);
// other word types / word counts: two amount types in quick, the other four in thorough
h_shl_f!(c05_t_shl_f8x3_u8, 8, f8x3(anylen(24)), u8, multi, 8, assign);
h_shr_f!(c05_t_shr_f8x3_u8, 8, f8x3(anylen(24)), u8, multi, 8, assign);
h_shl_f!(c05_q_shl_f8x3_u16, 8, f8x3(anylen(24)), u16, multi, 8, assign);
h_shr_f!(c05_q_shr_f8x3_u16, 8, f8x3(anylen(24)), u16, multi, 8, assign);
h_shl_f!(c05_t_shl_f8x3_u32, 8, f8x3(anylen(24)), u32, multi, 8, assign);
h_shr_f!(c05_t_shr_f8x3_u32, 8, f8x3(anylen(24)), u32, multi, 8, assign);
h_shl_f!(c05_q_shl_f8x3_u64, 8, f8x3(anylen(24)), u64, multi, 8, assign);
h_shr_f!(c05_q_shr_f8x3_u64, 8, f8x3(anylen(24)), u64, multi, 8, assign);
h_shl_f!(c05_t_shl_f8x3_u128, 8, f8x3(anylen(24)), u128, multi, 8, assign);
h_shr_f!(c05_t_shr_f8x3_u128, 8, f8x3(anylen(24)), u128, multi, 8, assign);
h_shl_f!(c05_t_shl_f8x3_usize, 8, f8x3(anylen(24)), usize, multi, 8, assign);
h_shr_f!(c05_t_shr_f8x3_usize, 8, f8x3(anylen(24)), usize, multi, 8, assign);
h_shl_f!(c05_t_shl_f16x2_u8, 6, f16x2(anylen(32)), u8, multi, 16, assign);
h_shr_f!(c05_t_shr_f16x2_u8, 6, f16x2(anylen(32)), u8, multi, 16, assign);
h_shl_f!(c05_t_shl_f16x2_u16, 6, f16x2(anylen(32)), u16, multi, 16, assign);
h_shr_f!(c05_t_shr_f16x2_u16, 6, f16x2(anylen(32)), u16, multi, 16, assign);
h_shl_f!(c05_q_shl_f16x2_u32, 6, f16x2(anylen(32)), u32, multi, 16, assign);
h_shr_f!(c05_q_shr_f16x2_u32, 6, f16x2(anylen(32)), u32, multi, 16, assign);
h_shl_f!(c05_t_shl_f16x2_u64, 6, f16x2(anylen(32)), u64, multi, 16, assign);
h_shr_f!(c05_t_shr_f16x2_u64, 6, f16x2(anylen(32)), u64, multi, 16, assign);
h_shl_f!(c05_t_shl_f16x2_u128, 6, f16x2(anylen(32)), u128, multi, 16, assign);
h_shr_f!(c05_t_shr_f16x2_u128, 6, f16x2(anylen(32)), u128, multi, 16, assign);
h_shl_f!(c05_q_shl_f16x2_usize, 6, f16x2(anylen(32)), usize, multi, 16, assign);
h_shr_f!(c05_q_shr_f16x2_usize, 6, f16x2(anylen(32)), usize, multi, 16, assign);
h_shl_f!(c05_q_shl_f64x2_u8, 6, f64x2(anylen(128)), u8, multi, 64, assign);
h_shr_f!(c05_q_shr_f64x2_u8, 6, f64x2(anylen(128)), u8, multi, 64, assign);
h_shl_f!(c05_t_shl_f64x2_u16, 6, f64x2(anylen(128)), u16, multi, 64, assign);
h_shr_f!(c05_t_shr_f64x2_u16, 6, f64x2(anylen(128)), u16, multi, 64, assign);
h_shl_f!(c05_t_shl_f64x2_u32, 6, f64x2(anylen(128)), u32, multi, 64, assign);
h_shr_f!(c05_t_shr_f64x2_u32, 6, f64x2(anylen(128)), u32, multi, 64, assign);
h_shl_f!(c05_t_shl_f64x2_u64, 6, f64x2(anylen(128)), u64, multi, 64, assign);
h_shr_f!(c05_t_shr_f64x2_u64, 6, f64x2(anylen(128)), u64, multi, 64, assign);
h_shl_f!(c05_q_shl_f64x2_u128, 6, f64x2(anylen(128)), u128, multi, 64, assign);
h_shr_f!(c05_q_shr_f64x2_u128, 6, f64x2(anylen(128)), u128, multi, 64, assign);
h_shl_f!(c05_t_shl_f64x2_usize, 6, f64x2(anylen(128)), usize, multi, 64, assign);
h_shr_f!(c05_t_shr_f64x2_usize, 6, f64x2(anylen(128)), usize, multi, 64, assign);
h_shl_f!(c05_q_shl_f64x1_u64, 4, f64x1(anylen(64)), u64, single, 64, assign);
h_shr_f!(c05_q_shr_f64x1_usize, 4, f64x1(anylen(64)), usize, single, 64, assign);
h_shl_f!(c05_t_shlw_f64x2_u128, 6, f64x2(anylen(128)), u128, multi, 64, others);
h_shr_f!(c05_t_shrw_f64x2_u64, 6, f64x2(anylen(128)), u64, multi, 64, others);
h_shl_f!(c05_t_shlw_f8x3_u8, 8, f8x3(anylen(24)), u8, multi, 8, others);
h_shr_f!(c05_t_shrw_f16x2_u16, 6, f16x2(anylen(32)), u16, multi, 16, others);
h_shl_f!(c05_t_shl_f8x1_u8, 4, f8x1(anylen(8)), u8, single, 8, assign);
h_shr_f!(c05_t_shr_f8x1_u8, 4, f8x1(anylen(8)), u8, single, 8, assign);
h_shl_f!(c05_t_shl_f8x4_u32, 10, f8x4(anylen(32)), u32, multi, 8, assign);
h_shr_f!(c05_t_shr_f8x4_u32, 10, f8x4(anylen(32)), u32, multi, 8, assign);
h_shl_f!(c05_t_shl_f32x2_u16, 6, f32x2(anylen(64)), u16, multi, 32, assign);
h_shr_f!(c05_t_shr_f32x2_u16, 6, f32x2(anylen(64)), u16, multi, 32, assign);
h_shl_f!(c05_t_shl_fuszx2_usize, 6, fuszx2(anylen(128)), usize, multi, 64, assign);
h_shr_f!(c05_t_shr_fuszx2_usize, 6, fuszx2(anylen(128)), usize, multi, 64, assign);
h_shl_f!(c05_t_shl_f64x3_u64, 8, f64x3(anylen(192)), u64, multi, 64, assign);
h_shr_f!(c05_t_shr_f64x3_u64, 8, f64x3(anylen(192)), u64, multi, 64, assign);
h_shl_f!(c05_t_shl_f128x2_u128, 6, f128x2(anylen(256)), u128, multi, 128, assign);
h_shr_f!(c05_t_shr_f128x2_u128, 6, f128x2(anylen(256)), u128, multi, 128, assign);
h_shl_f!(c05_t_shl_f128x2_u16, 6, f128x2(anylen(256)), u16, multi, 128, assign);
h_shr_f!(c05_t_shr_f128x2_u16, 6, f128x2(anylen(256)), u16, multi, 128, assign);

// ---- Bvd, in-place `<<=` / `>>=`: 2 allocated words (spare word whenever len <= 64), every amount type
h_shift_own!(c05_q_shl_bvd2_u8, 6, bvd2(anylen(128)), u8, shl_model, multi, a, k, { a <<= k; a });
h_shift_own!(c05_q_shr_bvd2_u8, 6, bvd2(anylen(128)), u8, shr_model, multi, a, k, { a >>= k; a });
h_shift_own!(c05_q_shl_bvd2_u16, 6, bvd2(anylen(128)), u16, shl_model, multi, a, k, { a <<= k; a });
h_shift_own!(c05_q_shr_bvd2_u16, 6, bvd2(anylen(128)), u16, shr_model, multi, a, k, { a >>= k; a });
h_shift_own!(c05_q_shl_bvd2_u32, 6, bvd2(anylen(128)), u32, shl_model, multi, a, k, { a <<= k; a });
h_shift_own!(c05_q_shr_bvd2_u32, 6, bvd2(anylen(128)), u32, shr_model, multi, a, k, { a >>= k; a });
h_shift_own!(c05_q_shl_bvd2_u64, 6, bvd2(anylen(128)), u64, shl_model, multi, a, k, { a <<= k; a });
h_shift_own!(c05_q_shr_bvd2_u64, 6, bvd2(anylen(128)), u64, shr_model, multi, a, k, { a >>= k; a });
h_shift_own!(c05_q_shl_bvd2_u128, 6, bvd2(anylen(128)), u128, shl_model, multi, a, k, { a <<= k; a });
h_shift_own!(c05_q_shr_bvd2_u128, 6, bvd2(anylen(128)), u128, shr_model, multi, a, k, { a >>= k; a });
h_shift_own!(c05_q_shl_bvd2_usize, 6, bvd2(anylen(128)), usize, shl_model, multi, a, k, { a <<= k; a });
h_shift_own!(c05_q_shr_bvd2_usize, 6, bvd2(anylen(128)), usize, shr_model, multi, a, k, { a >>= k; a });
// 1 and 3 allocated words
h_shift_own!(c05_t_shl_bvd1_u8, 4, bvd1(anylen(64)), u8, shl_model, single, a, k, { a <<= k; a });
h_shift_own!(c05_t_shr_bvd1_u8, 4, bvd1(anylen(64)), u8, shr_model, single, a, k, { a >>= k; a });
h_shift_own!(c05_q_shl_bvd1_u16, 4, bvd1(anylen(64)), u16, shl_model, single, a, k, { a <<= k; a });
h_shift_own!(c05_t_shr_bvd1_u16, 4, bvd1(anylen(64)), u16, shr_model, single, a, k, { a >>= k; a });
h_shift_own!(c05_t_shl_bvd1_u32, 4, bvd1(anylen(64)), u32, shl_model, single, a, k, { a <<= k; a });
h_shift_own!(c05_t_shr_bvd1_u32, 4, bvd1(anylen(64)), u32, shr_model, single, a, k, { a >>= k; a });
h_shift_own!(c05_t_shl_bvd1_u64, 4, bvd1(anylen(64)), u64, shl_model, single, a, k, { a <<= k; a });
h_shift_own!(c05_q_shr_bvd1_u64, 4, bvd1(anylen(64)), u64, shr_model, single, a, k, { a >>= k; a });
h_shift_own!(c05_t_shl_bvd1_u128, 4, bvd1(anylen(64)), u128, shl_model, single, a, k, { a <<= k; a });
h_shift_own!(c05_t_shr_bvd1_u128, 4, bvd1(anylen(64)), u128, shr_model, single, a, k, { a >>= k; a });
h_shift_own!(c05_t_shl_bvd1_usize, 4, bvd1(anylen(64)), usize, shl_model, single, a, k, { a <<= k; a });
h_shift_own!(c05_t_shr_bvd1_usize, 4, bvd1(anylen(64)), usize, shr_model, single, a, k, { a >>= k; a });
h_shift_own!(c05_t_shl_bvd3_u8, 8, bvd3(anylen(192)), u8, shl_model, multi, a, k, { a <<= k; a });
h_shift_own!(c05_t_shr_bvd3_u8, 8, bvd3(anylen(192)), u8, shr_model, multi, a, k, { a >>= k; a });
h_shift_own!(c05_t_shl_bvd3_u16, 8, bvd3(anylen(192)), u16, shl_model, multi, a, k, { a <<= k; a });
h_shift_own!(c05_t_shr_bvd3_u16, 8, bvd3(anylen(192)), u16, shr_model, multi, a, k, { a >>= k; a });
h_shift_own!(c05_t_shl_bvd3_u32, 8, bvd3(anylen(192)), u32, shl_model, multi, a, k, { a <<= k; a });
h_shift_own!(c05_q_shl_bvd3hi_u32, 8, bvd3(lenin(129, 192)), u32, shl_model, hi, a, k, { a <<= k; a });
h_shift_own!(c05_t_shr_bvd3_u32, 8, bvd3(anylen(192)), u32, shr_model, multi, a, k, { a >>= k; a });
h_shift_own!(c05_t_shl_bvd3_u64, 8, bvd3(anylen(192)), u64, shl_model, multi, a, k, { a <<= k; a });
h_shift_own!(c05_t_shr_bvd3_u64, 8, bvd3(anylen(192)), u64, shr_model, multi, a, k, { a >>= k; a });
h_shift_own!(c05_t_shl_bvd3_u128, 8, bvd3(anylen(192)), u128, shl_model, multi, a, k, { a <<= k; a });
h_shift_own!(c05_q_shr_bvd3_u128, 8, bvd3(anylen(192)), u128, shr_model, multi, a, k, { a >>= k; a });
h_shift_own!(c05_t_shl_bvd3_usize, 8, bvd3(anylen(192)), usize, shl_model, multi, a, k, { a <<= k; a });
h_shift_own!(c05_t_shr_bvd3_usize, 8, bvd3(anylen(192)), usize, shr_model, multi, a, k, { a >>= k; a });
// owning wrapper forms: a op k (v), a op &k (vr), a op= &k (ar)
h_shift_own!(c05_q_shlv_bvd2_u32, 6, bvd2(anylen(128)), u32, shl_model, multi, a, k, a << k);
h_shift_own!(c05_q_shrv_bvd2_u64, 6, bvd2(anylen(128)), u64, shr_model, multi, a, k, a >> k);
h_shift_own!(c05_q_shlvr_bvd2_u8, 6, bvd2(anylen(128)), u8, shl_model, multi, a, k, a << &k);
h_shift_own!(c05_q_shrvr_bvd2_u16, 6, bvd2(anylen(128)), u16, shr_model, multi, a, k, a >> &k);
h_shift_own!(c05_q_shlar_bvd2_usize, 6, bvd2(anylen(128)), usize, shl_model, multi, a, k, { a <<= &k; a });
h_shift_own!(c05_q_shrar_bvd2_u128, 6, bvd2(anylen(128)), u128, shr_model, multi, a, k, { a >>= &k; a });
h_shift_own!(c05_t_shlv_bvd2_u128, 6, bvd2(anylen(128)), u128, shl_model, multi, a, k, a << k);
h_shift_own!(c05_t_shlv_bvd2_u8, 6, bvd2(anylen(128)), u8, shl_model, multi, a, k, a << k);
h_shift_own!(c05_t_shrv_bvd2_usize, 6, bvd2(anylen(128)), usize, shr_model, multi, a, k, a >> k);
h_shift_own!(c05_t_shrv_bvd2_u16, 6, bvd2(anylen(128)), u16, shr_model, multi, a, k, a >> k);
h_shift_own!(c05_t_shlvr_bvd2_u64, 6, bvd2(anylen(128)), u64, shl_model, multi, a, k, a << &k);
h_shift_own!(c05_t_shlvr_bvd2_u16, 6, bvd2(anylen(128)), u16, shl_model, multi, a, k, a << &k);
h_shift_own!(c05_t_shrvr_bvd2_u32, 6, bvd2(anylen(128)), u32, shr_model, multi, a, k, a >> &k);
h_shift_own!(c05_t_shrvr_bvd2_u128, 6, bvd2(anylen(128)), u128, shr_model, multi, a, k, a >> &k);
h_shift_own!(c05_t_shlar_bvd2_u8, 6, bvd2(anylen(128)), u8, shl_model, multi, a, k, { a <<= &k; a });
h_shift_own!(c05_t_shlar_bvd2_u32, 6, bvd2(anylen(128)), u32, shl_model, multi, a, k, { a <<= &k; a });
h_shift_own!(c05_t_shrar_bvd2_u64, 6, bvd2(anylen(128)), u64, shr_model, multi, a, k, { a >>= &k; a });
h_shift_own!(c05_t_shrar_bvd2_usize, 6, bvd2(anylen(128)), usize, shr_model, multi, a, k, { a >>= &k; a });

// ---- `&Bvd << k` / `&Bvd >> k`: a separate implementation that allocates by length (cost rule 2):
// concrete lengths on 3 allocated words (spare words for the short ones), symbolic contents and amounts
h_shift_ref!(c05_q_refshl_bvd3_l0_u8, 8, bvd3(0), u8, shl_model, lat, a, k, &a << k);
h_shift_ref!(c05_q_refshr_bvd3_l0_u64, 8, bvd3(0), u64, shr_model, lat, a, k, &a >> k);
h_shift_ref!(c05_q_refshl_bvd3_l1_u16, 8, bvd3(1), u16, shl_model, lat, a, k, &a << k);
h_shift_ref!(c05_q_refshr_bvd3_l1_u128, 8, bvd3(1), u128, shr_model, lat, a, k, &a >> k);
h_shift_ref!(c05_q_refshl_bvd3_l63_u32, 8, bvd3(63), u32, shl_model, lat, a, k, &a << k);
h_shift_ref!(c05_q_refshr_bvd3_l63_usize, 8, bvd3(63), usize, shr_model, lat, a, k, &a >> k);
h_shift_ref!(c05_q_refshl_bvd3_l64_u64, 8, bvd3(64), u64, shl_model, lat, a, k, &a << k);
h_shift_ref!(c05_q_refshr_bvd3_l64_u8, 8, bvd3(64), u8, shr_model, lat, a, k, &a >> k);
h_shift_ref!(c05_q_refshl_bvd3_l65_u128, 8, bvd3(65), u128, shl_model, lat, a, k, &a << k);
h_shift_ref!(c05_q_refshr_bvd3_l65_u16, 8, bvd3(65), u16, shr_model, lat, a, k, &a >> k);
h_shift_ref!(c05_q_refshl_bvd3_l127_usize, 8, bvd3(127), usize, shl_model, lat, a, k, &a << k);
h_shift_ref!(c05_q_refshr_bvd3_l127_u32, 8, bvd3(127), u32, shr_model, lat, a, k, &a >> k);
h_shift_ref!(c05_q_refshl_bvd3_l128_u8, 8, bvd3(128), u8, shl_model, lat, a, k, &a << k);
h_shift_ref!(c05_q_refshr_bvd3_l128_u64, 8, bvd3(128), u64, shr_model, lat, a, k, &a >> k);
h_shift_ref!(c05_q_refshl_bvd3_l129_u16, 8, bvd3(129), u16, shl_model, lat, a, k, &a << k);
h_shift_ref!(c05_q_refshr_bvd3_l129_u128, 8, bvd3(129), u128, shr_model, lat, a, k, &a >> k);
h_shift_ref!(c05_q_refshl_bvd3_l191_u32, 8, bvd3(191), u32, shl_model, lat, a, k, &a << k);
h_shift_ref!(c05_q_refshr_bvd3_l191_usize, 8, bvd3(191), usize, shr_model, lat, a, k, &a >> k);
h_shift_ref!(c05_q_refshl_bvd3_l192_u64, 8, bvd3(192), u64, shl_model, lat, a, k, &a << k);
h_shift_ref!(c05_q_refshr_bvd3_l192_u8, 8, bvd3(192), u8, shr_model, lat, a, k, &a >> k);
h_shift_ref!(c05_q_refshlr_bvd3_l65_u64, 8, bvd3(65), u64, shl_model, lat, a, k, &a << &k);
h_shift_ref!(c05_q_refshrr_bvd3_l128_u8, 8, bvd3(128), u8, shr_model, lat, a, k, &a >> &k);
// thorough: more lengths on 2 allocated words, and a symbolic length on one word
h_shift_ref!(c05_t_refshl_bvd2_l2_u32, 6, bvd2(2), u32, shl_model, lat, a, k, &a << k);
h_shift_ref!(c05_t_refshr_bvd2_l2_usize, 6, bvd2(2), usize, shr_model, lat, a, k, &a >> k);
h_shift_ref!(c05_t_refshl_bvd2_l8_u64, 6, bvd2(8), u64, shl_model, lat, a, k, &a << k);
h_shift_ref!(c05_t_refshr_bvd2_l8_u8, 6, bvd2(8), u8, shr_model, lat, a, k, &a >> k);
h_shift_ref!(c05_t_refshl_bvd2_l33_u128, 6, bvd2(33), u128, shl_model, lat, a, k, &a << k);
h_shift_ref!(c05_t_refshr_bvd2_l33_u16, 6, bvd2(33), u16, shr_model, lat, a, k, &a >> k);
h_shift_ref!(c05_t_refshl_bvd2_l62_usize, 6, bvd2(62), usize, shl_model, lat, a, k, &a << k);
h_shift_ref!(c05_t_refshr_bvd2_l62_u32, 6, bvd2(62), u32, shr_model, lat, a, k, &a >> k);
h_shift_ref!(c05_t_refshl_bvd2_l66_u8, 6, bvd2(66), u8, shl_model, lat, a, k, &a << k);
h_shift_ref!(c05_t_refshr_bvd2_l66_u64, 6, bvd2(66), u64, shr_model, lat, a, k, &a >> k);
h_shift_ref!(c05_t_refshl_bvd2_l100_u16, 6, bvd2(100), u16, shl_model, lat, a, k, &a << k);
h_shift_ref!(c05_t_refshr_bvd2_l100_u128, 6, bvd2(100), u128, shr_model, lat, a, k, &a >> k);
h_shift_ref!(c05_t_refshl_bvd2_l126_u32, 6, bvd2(126), u32, shl_model, lat, a, k, &a << k);
h_shift_ref!(c05_t_refshr_bvd2_l126_usize, 6, bvd2(126), usize, shr_model, lat, a, k, &a >> k);
h_shift_ref!(c05_t_refshl_bvd2_l128_u64, 6, bvd2(128), u64, shl_model, lat, a, k, &a << k);
h_shift_ref!(c05_t_refshr_bvd2_l128_u8, 6, bvd2(128), u8, shr_model, lat, a, k, &a >> k);
h_shift_ref!(c05_t_refshl_bvd1_u8, 3, bvd1(anylen(64)), u8, shl_model, single, a, k, &a << k);
h_shift_ref!(c05_t_refshr_bvd1_u8, 3, bvd1(anylen(64)), u8, shr_model, single, a, k, &a >> k);

// ---- Bv, inline and heap mode -----------------------------------------------------------------
h_shift_own!(c05_q_shl_bvfix_u128, 6, bvfix(anylen(128)), u128, shl_model, multi, a, k, { a <<= k; a });
h_shift_own!(c05_q_shr_bvfix_u8, 6, bvfix(anylen(128)), u8, shr_model, multi, a, k, { a >>= k; a });
h_shift_own!(c05_q_shl_bvdyn2_u64, 6, bvdyn2(anylen(128)), u64, shl_model, multi, a, k, { a <<= k; a });
h_shift_own!(c05_q_shr_bvdyn2_u32, 6, bvdyn2(anylen(128)), u32, shr_model, multi, a, k, { a >>= k; a });
h_shift_ref!(c05_q_refshr_bvfix_u16, 6, bvfix(anylen(128)), u16, shr_model, multi, a, k, &a >> k);
h_shift_ref!(c05_q_refshl_bvdyn2_usize, 6, bvdyn2(anylen(128)), usize, shl_model, multi, a, k, &a << k);
h_shift_own!(c05_t_shlv_bvfix_u32, 6, bvfix(anylen(128)), u32, shl_model, multi, a, k, a << k);
h_shift_own!(c05_t_shrvr_bvfix_u64, 6, bvfix(anylen(128)), u64, shr_model, multi, a, k, a >> &k);
h_shift_own!(c05_t_shlar_bvfix_u16, 6, bvfix(anylen(128)), u16, shl_model, multi, a, k, { a <<= &k; a });
h_shift_own!(c05_t_shrv_bvdyn2_u128, 6, bvdyn2(anylen(128)), u128, shr_model, multi, a, k, a >> k);
h_shift_own!(c05_t_shlvr_bvdyn2_u8, 6, bvdyn2(anylen(128)), u8, shl_model, multi, a, k, a << &k);
h_shift_own!(c05_t_shrar_bvdyn2_usize, 6, bvdyn2(anylen(128)), usize, shr_model, multi, a, k, { a >>= &k; a });
h_shift_ref!(c05_t_refshlr_bvfix_u128, 6, bvfix(anylen(128)), u128, shl_model, multi, a, k, &a << &k);
h_shift_ref!(c05_t_refshrr_bvdyn2_u64, 6, bvdyn2(anylen(128)), u64, shr_model, multi, a, k, &a >> &k);
h_shift_own!(c05_t_shl_bvdyn1_u128, 4, bvdyn1(anylen(64)), u128, shl_model, single, a, k, { a <<= k; a });
h_shift_own!(c05_t_shr_bvdyn3_u128, 8, bvdyn3(anylen(192)), u128, shr_model, multi, a, k, { a >>= k; a });

// ---- shl_in / shr_in ----------------------------------------------------------------------------
h_shin_f!(c05_q_shin_f8x1, 3, f8x1(anylen(8)));
h_shin_f!(c05_q_shin_f8x2, 4, f8x2(anylen(16)));
h_shin_f!(c05_q_shin_f8x3, 5, f8x3(anylen(24)));
h_shin_f!(c05_q_shin_f16x2, 4, f16x2(anylen(32)));
h_shin_f!(c05_q_shin_f64x1, 3, f64x1(anylen(64)));
h_shin_f!(c05_q_shin_f64x2, 4, f64x2(anylen(128)));
h_shin_f!(c05_t_shin_f8x4, 6, f8x4(anylen(32)));
h_shin_f!(c05_t_shin_f32x2, 4, f32x2(anylen(64)));
h_shin_f!(c05_t_shin_fuszx2, 4, fuszx2(anylen(128)));
h_shin_f!(c05_t_shin_f64x3, 5, f64x3(anylen(192)));
h_shin_f!(c05_t_shin_f128x2, 4, f128x2(anylen(256)));
h_shlin_d!(c05_q_shlin_bvd1, 3, bvd1(anylen(64)));
h_shrin_d!(c05_q_shrin_bvd1, 3, bvd1(anylen(64)));
h_shlin_d!(c05_q_shlin_bvd2, 4, bvd2(anylen(128)));
h_shrin_d!(c05_q_shrin_bvd2, 4, bvd2(anylen(128)));
h_shlin_d!(c05_q_shlin_bvd3, 5, bvd3(anylen(192)));
h_shrin_d!(c05_q_shrin_bvd3, 5, bvd3(anylen(192)));
h_shlin_d!(c05_q_shlin_bvfix, 4, bvfix(anylen(128)));
h_shrin_d!(c05_q_shrin_bvfix, 4, bvfix(anylen(128)));
h_shlin_d!(c05_q_shlin_bvdyn2, 4, bvdyn2(anylen(128)));
h_shrin_d!(c05_q_shrin_bvdyn2, 4, bvdyn2(anylen(128)));
h_shlin_d!(c05_t_shlin_bvd4, 6, bvd4(anylen(256)));
h_shrin_d!(c05_t_shrin_bvd4, 6, bvd4(anylen(256)));
h_shlin_d!(c05_t_shlin_bvdyn3, 5, bvdyn3(anylen(192)));
h_shrin_d!(c05_t_shrin_bvdyn3, 5, bvdyn3(anylen(192)));

/// The empty `Bvd` without any storage word.
harness!(c05_q_bvd0, 2, {
    let (mut a, ra) = bvd0(0);
    let k = nd::u128();
    let b = nd::bool();
    let bit = if b { Bit::One } else { Bit::Zero };
    w!(k > u64::MAX as u128, "amount above usize::MAX");
    let sel = nd::upto(5);
    if sel == 0 {
        a <<= k;
    } else if sel == 1 {
        a >>= k;
    } else if sel == 2 {
        a = &a << k;
    } else if sel == 3 {
        a = &a >> k;
    } else if sel == 4 {
        assert!((a.shl_in(bit) == Bit::One) == b, "C05: shl_in on the empty vector did not return the supplied bit");
    } else {
        assert!((a.shr_in(bit) == Bit::One) == b, "C05: shr_in on the empty vector did not return the supplied bit");
    }
    assert!(a.into_raw() == ra, "C05: shifting the empty vector changed it");
});
