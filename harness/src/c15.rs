//! C15 — parsing accepts exactly binary / hex digit strings and inverts formatting.
//!
//! Strings have a concrete number of characters per harness (a symbolic `String` length
//! explodes, see HARNESS_GUIDE cost rule 2); their characters are symbolic: every ASCII byte
//! at every position, plus one symbolic 2- or 3-byte UTF-8 character at a symbolic position
//! in the multi-byte families. The oracle scans the same bytes: index of the first character
//! that is not a digit, and the value denoted by the digits (most significant first).
//! Results are inspected on their raw storage, so the *length* fixed by leading zeros and the
//! cleanliness of padding are part of the verdict (the test-suite compares values only).
use crate::big::Big;
use crate::nd;
use crate::scopes::*;
use bva::{Bit, BitVector, Bv, Bvd, Bvf, ConvertionError};

const NOCAP: usize = usize::MAX;

/// `n` symbolic ASCII bytes (every 7-bit value).
macro_rules! ascii {
    ($n:literal) => {{
        let mut b = [0u8; $n];
        let mut i = 0;
        while i < $n {
            let c = nd::u8();
            nd::assume(c < 128);
            b[i] = c;
            i += 1;
        }
        b
    }};
}

/// What a scan of the characters says: index of the first non-digit (`n` if none), the value
/// of the digit string, and whether lower / upper case letters occur.
#[derive(Clone, Copy)]
pub struct Scan {
    pub bad: usize,
    pub val: Big,
    pub lower: bool,
    pub upper: bool,
}

#[inline(always)]
pub fn scan_bin(b: &[u8], n: usize) -> Scan {
    let mut s = Scan { bad: n, val: Big::ZERO, lower: false, upper: false };
    let mut i = 0;
    while i < n {
        let c = b[i];
        if c == b'0' || c == b'1' {
            s.val = s.val.shl(1).or(Big::lo((c - b'0') as u128));
        } else if s.bad == n {
            s.bad = i;
        }
        i += 1;
    }
    s
}

#[inline(always)]
pub fn scan_hex(b: &[u8], n: usize) -> Scan {
    let mut s = Scan { bad: n, val: Big::ZERO, lower: false, upper: false };
    let mut i = 0;
    while i < n {
        let c = b[i];
        let d = if c >= b'0' && c <= b'9' {
            c - b'0'
        } else if c >= b'a' && c <= b'f' {
            s.lower = true;
            c - b'a' + 10
        } else if c >= b'A' && c <= b'F' {
            s.upper = true;
            c - b'A' + 10
        } else {
            255
        };
        if d < 16 {
            s.val = s.val.shl(4).or(Big::lo(d as u128));
        } else if s.bad == n {
            s.bad = i;
        }
        i += 1;
    }
    s
}

/// Verdict on one parse result. `nchars` characters, `bits` bits per character, `bad` = index
/// of the first offending character (`nchars` if none), `val` = value of the digit string.
macro_rules! judge {
    ($r:expr, $nchars:expr, $bits:literal, $cap:expr, $bad:expr, $val:expr) => {{
        let fits = $nchars * $bits <= $cap;
        match $r {
            Ok(x) => {
                let rr = x.into_raw();
                assert!($bad == $nchars, "C15: a string with an offending character was accepted");
                assert!(fits, "C15: a string longer than the fixed capacity was accepted");
                assert!(rr.len == $nchars * $bits, "C15: result length != number of characters (x4 for hex)");
                assert!(rr.v == $val, "C15: result storage != value of the digit string (first character most significant)");
                assert!(rr.len <= rr.cap, "C15: len > capacity");
            }
            Err(ConvertionError::InvalidFormat(i)) => {
                assert!($bad < $nchars, "C15: an all-digit string was rejected as InvalidFormat");
                // too long *and* invalid: the property leaves the kind of error open
                assert!(!fits || i == $bad, "C15: InvalidFormat index is not the first offending character");
            }
            Err(ConvertionError::NotEnoughCapacity) => {
                assert!(!fits, "C15: NotEnoughCapacity for a string that fits");
            }
        }
    }};
}

/// ASCII strings of `$n` characters.
macro_rules! h_parse {
    ($name:ident, $unw:literal, $T:ty, $f:ident, $scan:ident, $bits:literal, $n:literal, $cap:expr) => {
        harness!($name, $unw, {
            let b = ascii!($n);
            let sc = $scan(&b[..], $n);
            // ASCII bytes are valid UTF-8
            let s: &str = unsafe { std::str::from_utf8_unchecked(&b[..]) };
            w!(sc.bad == $n, "every character is a digit");
            w!($n == 0 || (sc.bad == $n && b.first() == Some(&b'0')), "all digits with a leading zero (or empty string)");
            w!($n == 0 || sc.bad + 1 == $n, "only the last character offends (or empty string)");
            w!($n == 0 || sc.bad == 0, "the first character offends (or empty string)");
            w!($n < 2 || $bits == 1 || (sc.bad == $n && sc.lower && sc.upper), "mixed-case hex digits (hex strings of two or more characters)");
            let r = <$T>::$f(s);
            judge!(r, $n, $bits, $cap, sc.bad, sc.val);
        });
    };
}

/// `$n` symbolic ASCII characters with one symbolic `$w`-byte UTF-8 character inserted at a
/// symbolic character position `p` (`$nb = $n + $w` bytes, `$n + 1` characters).
macro_rules! h_parse_mb {
    ($name:ident, $unw:literal, $T:ty, $f:ident, $scan:ident, $bits:literal, $n:literal, $w:literal, $nb:literal, $cap:expr) => {
        harness!($name, $unw, {
            let a = ascii!($n);
            let p = nd::upto($n);
            // U+0080..U+07FF, resp. U+1000..U+CFFF: always well-formed
            let mb: [u8; 3] = if $w == 2 {
                [0xC2 + nd::upto(0x1D) as u8, 0x80 + nd::upto(0x3F) as u8, 0]
            } else {
                [0xE1 + nd::upto(0x0B) as u8, 0x80 + nd::upto(0x3F) as u8, 0x80 + nd::upto(0x3F) as u8]
            };
            assert!($nb == $n + $w, "HARNESS: byte count");
            let mut b = [0u8; $nb];
            let mut j = 0;
            while j < $nb {
                b[j] = if j < p {
                    a[j]
                } else if j < p + $w {
                    mb[j - p]
                } else {
                    a[j - $w]
                };
                j += 1;
            }
            let sc = $scan(&a[..], $n);
            let bad = if sc.bad < p { sc.bad } else { p };
            let s: &str = unsafe { std::str::from_utf8_unchecked(&b[..]) };
            w!(bad == p && p == $n, "multi-byte character last, everything before it a digit");
            w!(bad == p && p == 0, "multi-byte character first");
            w!($n == 0 || bad < p, "an ASCII non-digit precedes the multi-byte character (or no ASCII at all)");
            w!($n < 2 || (bad == p && p > 0 && p < $n), "multi-byte character in the middle of digits (three or more characters)");
            let r = <$T>::$f(s);
            judge!(r, ($n + 1), $bits, $cap, bad, Big::ZERO);
        });
    };
}

// ==== from_binary, ASCII ======================================================================
h_parse!(c15_q_bin_f8x1_n0, 3, Bvf<u8, 1>, from_binary, scan_bin, 1, 0, 8);
h_parse!(c15_q_bin_f8x1_n1, 4, Bvf<u8, 1>, from_binary, scan_bin, 1, 1, 8);
h_parse!(c15_q_bin_f8x1_n7, 10, Bvf<u8, 1>, from_binary, scan_bin, 1, 7, 8);
h_parse!(c15_q_bin_f8x1_n8, 11, Bvf<u8, 1>, from_binary, scan_bin, 1, 8, 8);
h_parse!(c15_q_bin_f8x1_n9, 12, Bvf<u8, 1>, from_binary, scan_bin, 1, 9, 8);
h_parse!(c15_q_bin_f8x1_n10, 13, Bvf<u8, 1>, from_binary, scan_bin, 1, 10, 8);
h_parse!(c15_t_bin_f8x1_n2, 5, Bvf<u8, 1>, from_binary, scan_bin, 1, 2, 8);
h_parse!(c15_t_bin_f8x1_n3, 6, Bvf<u8, 1>, from_binary, scan_bin, 1, 3, 8);
h_parse!(c15_t_bin_f8x1_n4, 7, Bvf<u8, 1>, from_binary, scan_bin, 1, 4, 8);
h_parse!(c15_t_bin_f8x1_n5, 8, Bvf<u8, 1>, from_binary, scan_bin, 1, 5, 8);
h_parse!(c15_t_bin_f8x1_n6, 9, Bvf<u8, 1>, from_binary, scan_bin, 1, 6, 8);
h_parse!(c15_q_bin_f8x2_n0, 3, Bvf<u8, 2>, from_binary, scan_bin, 1, 0, 16);
h_parse!(c15_q_bin_f8x2_n1, 4, Bvf<u8, 2>, from_binary, scan_bin, 1, 1, 16);
h_parse!(c15_q_bin_f8x2_n8, 11, Bvf<u8, 2>, from_binary, scan_bin, 1, 8, 16);
h_parse!(c15_q_bin_f8x2_n9, 12, Bvf<u8, 2>, from_binary, scan_bin, 1, 9, 16);
h_parse!(c15_q_bin_f8x2_n15, 18, Bvf<u8, 2>, from_binary, scan_bin, 1, 15, 16);
h_parse!(c15_q_bin_f8x2_n16, 19, Bvf<u8, 2>, from_binary, scan_bin, 1, 16, 16);
h_parse!(c15_q_bin_f8x2_n17, 20, Bvf<u8, 2>, from_binary, scan_bin, 1, 17, 16);
h_parse!(c15_q_bin_f8x2_n18, 21, Bvf<u8, 2>, from_binary, scan_bin, 1, 18, 16);
h_parse!(c15_t_bin_f8x2_n2, 5, Bvf<u8, 2>, from_binary, scan_bin, 1, 2, 16);
h_parse!(c15_t_bin_f8x2_n3, 6, Bvf<u8, 2>, from_binary, scan_bin, 1, 3, 16);
h_parse!(c15_t_bin_f8x2_n4, 7, Bvf<u8, 2>, from_binary, scan_bin, 1, 4, 16);
h_parse!(c15_t_bin_f8x2_n5, 8, Bvf<u8, 2>, from_binary, scan_bin, 1, 5, 16);
h_parse!(c15_t_bin_f8x2_n6, 9, Bvf<u8, 2>, from_binary, scan_bin, 1, 6, 16);
h_parse!(c15_t_bin_f8x2_n7, 10, Bvf<u8, 2>, from_binary, scan_bin, 1, 7, 16);
h_parse!(c15_t_bin_f8x2_n10, 13, Bvf<u8, 2>, from_binary, scan_bin, 1, 10, 16);
h_parse!(c15_t_bin_f8x2_n11, 14, Bvf<u8, 2>, from_binary, scan_bin, 1, 11, 16);
h_parse!(c15_t_bin_f8x2_n12, 15, Bvf<u8, 2>, from_binary, scan_bin, 1, 12, 16);
h_parse!(c15_t_bin_f8x2_n13, 16, Bvf<u8, 2>, from_binary, scan_bin, 1, 13, 16);
h_parse!(c15_t_bin_f8x2_n14, 17, Bvf<u8, 2>, from_binary, scan_bin, 1, 14, 16);
h_parse!(c15_t_bin_f8x3_n24, 27, Bvf<u8, 3>, from_binary, scan_bin, 1, 24, 24);
h_parse!(c15_t_bin_f8x3_n25, 28, Bvf<u8, 3>, from_binary, scan_bin, 1, 25, 24);
h_parse!(c15_t_bin_f8x3_n17, 20, Bvf<u8, 3>, from_binary, scan_bin, 1, 17, 24);
h_parse!(c15_t_bin_f8x3_n23, 26, Bvf<u8, 3>, from_binary, scan_bin, 1, 23, 24);
h_parse!(c15_q_bin_f16x1_n15, 18, Bvf<u16, 1>, from_binary, scan_bin, 1, 15, 16);
h_parse!(c15_q_bin_f16x1_n16, 19, Bvf<u16, 1>, from_binary, scan_bin, 1, 16, 16);
h_parse!(c15_q_bin_f16x1_n17, 20, Bvf<u16, 1>, from_binary, scan_bin, 1, 17, 16);
h_parse!(c15_t_bin_f16x1_n1, 4, Bvf<u16, 1>, from_binary, scan_bin, 1, 1, 16);
h_parse!(c15_q_bin_f16x2_n17, 20, Bvf<u16, 2>, from_binary, scan_bin, 1, 17, 32);
h_parse!(c15_t_bin_f16x2_n16, 19, Bvf<u16, 2>, from_binary, scan_bin, 1, 16, 32);
h_parse!(c15_t_bin_f16x2_n31, 34, Bvf<u16, 2>, from_binary, scan_bin, 1, 31, 32);
h_parse!(c15_t_bin_f128x1_n20, 23, Bvf<u128, 1>, from_binary, scan_bin, 1, 20, 128);
h_parse!(c15_t_bin_bvd_n0, 3, Bvd, from_binary, scan_bin, 1, 0, NOCAP);
h_parse!(c15_q_bin_bvd_n1, 4, Bvd, from_binary, scan_bin, 1, 1, NOCAP);
h_parse!(c15_q_bin_bv_n0, 3, Bv, from_binary, scan_bin, 1, 0, NOCAP);
h_parse!(c15_q_bin_bv_n5, 8, Bv, from_binary, scan_bin, 1, 5, NOCAP);
// ==== from_hex, ASCII =========================================================================
h_parse!(c15_q_hex_f8x1_n0, 3, Bvf<u8, 1>, from_hex, scan_hex, 4, 0, 8);
h_parse!(c15_q_hex_f8x1_n1, 4, Bvf<u8, 1>, from_hex, scan_hex, 4, 1, 8);
h_parse!(c15_q_hex_f8x1_n2, 5, Bvf<u8, 1>, from_hex, scan_hex, 4, 2, 8);
h_parse!(c15_q_hex_f8x1_n3, 6, Bvf<u8, 1>, from_hex, scan_hex, 4, 3, 8);
h_parse!(c15_q_hex_f8x1_n4, 7, Bvf<u8, 1>, from_hex, scan_hex, 4, 4, 8);
h_parse!(c15_q_hex_f8x2_n0, 3, Bvf<u8, 2>, from_hex, scan_hex, 4, 0, 16);
h_parse!(c15_q_hex_f8x2_n1, 4, Bvf<u8, 2>, from_hex, scan_hex, 4, 1, 16);
h_parse!(c15_q_hex_f8x2_n2, 5, Bvf<u8, 2>, from_hex, scan_hex, 4, 2, 16);
h_parse!(c15_q_hex_f8x2_n3, 6, Bvf<u8, 2>, from_hex, scan_hex, 4, 3, 16);
h_parse!(c15_q_hex_f8x2_n4, 7, Bvf<u8, 2>, from_hex, scan_hex, 4, 4, 16);
h_parse!(c15_q_hex_f8x2_n5, 8, Bvf<u8, 2>, from_hex, scan_hex, 4, 5, 16);
h_parse!(c15_q_hex_f8x3_n5, 8, Bvf<u8, 3>, from_hex, scan_hex, 4, 5, 24);
h_parse!(c15_q_hex_f8x3_n6, 9, Bvf<u8, 3>, from_hex, scan_hex, 4, 6, 24);
h_parse!(c15_q_hex_f8x3_n7, 10, Bvf<u8, 3>, from_hex, scan_hex, 4, 7, 24);
h_parse!(c15_q_hex_f16x1_n0, 3, Bvf<u16, 1>, from_hex, scan_hex, 4, 0, 16);
h_parse!(c15_q_hex_f16x1_n3, 6, Bvf<u16, 1>, from_hex, scan_hex, 4, 3, 16);
h_parse!(c15_q_hex_f16x1_n4, 7, Bvf<u16, 1>, from_hex, scan_hex, 4, 4, 16);
h_parse!(c15_q_hex_f16x1_n5, 8, Bvf<u16, 1>, from_hex, scan_hex, 4, 5, 16);
h_parse!(c15_t_hex_f16x1_n1, 4, Bvf<u16, 1>, from_hex, scan_hex, 4, 1, 16);
h_parse!(c15_t_hex_f16x1_n2, 5, Bvf<u16, 1>, from_hex, scan_hex, 4, 2, 16);
h_parse!(c15_q_hex_f16x2_n5, 8, Bvf<u16, 2>, from_hex, scan_hex, 4, 5, 32);
h_parse!(c15_q_hex_f16x2_n8, 11, Bvf<u16, 2>, from_hex, scan_hex, 4, 8, 32);
h_parse!(c15_q_hex_f16x2_n9, 12, Bvf<u16, 2>, from_hex, scan_hex, 4, 9, 32);
h_parse!(c15_t_hex_f16x2_n3, 6, Bvf<u16, 2>, from_hex, scan_hex, 4, 3, 32);
h_parse!(c15_t_hex_f16x2_n4, 7, Bvf<u16, 2>, from_hex, scan_hex, 4, 4, 32);
h_parse!(c15_t_hex_f64x2_n15, 18, Bvf<u64, 2>, from_hex, scan_hex, 4, 15, 128);
h_parse!(c15_t_hex_f64x2_n16, 19, Bvf<u64, 2>, from_hex, scan_hex, 4, 16, 128);
h_parse!(c15_t_hex_f64x2_n17, 20, Bvf<u64, 2>, from_hex, scan_hex, 4, 17, 128);
h_parse!(c15_t_hex_f32x2_n9, 12, Bvf<u32, 2>, from_hex, scan_hex, 4, 9, 64);
h_parse!(c15_t_hex_f32x2_n16, 19, Bvf<u32, 2>, from_hex, scan_hex, 4, 16, 64);
h_parse!(c15_t_hex_f32x2_n17, 20, Bvf<u32, 2>, from_hex, scan_hex, 4, 17, 64);
h_parse!(c15_t_hex_bvd_n0, 3, Bvd, from_hex, scan_hex, 4, 0, NOCAP);
h_parse!(c15_q_hex_bvd_n1, 4, Bvd, from_hex, scan_hex, 4, 1, NOCAP);
h_parse!(c15_q_hex_bv_n0, 3, Bv, from_hex, scan_hex, 4, 0, NOCAP);
h_parse!(c15_q_hex_bv_n3, 6, Bv, from_hex, scan_hex, 4, 3, NOCAP);
h_parse!(c15_t_hex_bv_n16, 19, Bv, from_hex, scan_hex, 4, 16, NOCAP);
h_parse!(c15_t_hex_bv_n31, 34, Bv, from_hex, scan_hex, 4, 31, NOCAP);
// ==== one multi-byte character at a symbolic position ===============================================
h_parse_mb!(c15_q_binmb2_f8x1_n0, 5, Bvf<u8, 1>, from_binary, scan_bin, 1, 0, 2, 2, 8);
h_parse_mb!(c15_q_binmb2_f8x1_n3, 8, Bvf<u8, 1>, from_binary, scan_bin, 1, 3, 2, 5, 8);
h_parse_mb!(c15_q_binmb2_f8x1_n7, 12, Bvf<u8, 1>, from_binary, scan_bin, 1, 7, 2, 9, 8);
h_parse_mb!(c15_q_binmb2_f8x1_n8, 13, Bvf<u8, 1>, from_binary, scan_bin, 1, 8, 2, 10, 8);
h_parse_mb!(c15_t_binmb2_f8x1_n9, 14, Bvf<u8, 1>, from_binary, scan_bin, 1, 9, 2, 11, 8);
h_parse_mb!(c15_q_binmb3_f8x1_n3, 9, Bvf<u8, 1>, from_binary, scan_bin, 1, 3, 3, 6, 8);
h_parse_mb!(c15_q_binmb3_f8x1_n7, 13, Bvf<u8, 1>, from_binary, scan_bin, 1, 7, 3, 10, 8);
h_parse_mb!(c15_t_binmb3_f8x1_n0, 6, Bvf<u8, 1>, from_binary, scan_bin, 1, 0, 3, 3, 8);
h_parse_mb!(c15_t_binmb3_f8x1_n8, 14, Bvf<u8, 1>, from_binary, scan_bin, 1, 8, 3, 11, 8);
h_parse_mb!(c15_q_binmb2_f8x2_n5, 10, Bvf<u8, 2>, from_binary, scan_bin, 1, 5, 2, 7, 16);
h_parse_mb!(c15_q_binmb2_f8x2_n15, 20, Bvf<u8, 2>, from_binary, scan_bin, 1, 15, 2, 17, 16);
h_parse_mb!(c15_q_binmb2_f8x2_n16, 21, Bvf<u8, 2>, from_binary, scan_bin, 1, 16, 2, 18, 16);
h_parse_mb!(c15_t_binmb2_f8x2_n0, 5, Bvf<u8, 2>, from_binary, scan_bin, 1, 0, 2, 2, 16);
h_parse_mb!(c15_t_binmb2_f8x2_n17, 22, Bvf<u8, 2>, from_binary, scan_bin, 1, 17, 2, 19, 16);
h_parse_mb!(c15_q_binmb3_f8x2_n15, 21, Bvf<u8, 2>, from_binary, scan_bin, 1, 15, 3, 18, 16);
h_parse_mb!(c15_t_binmb3_f8x2_n5, 11, Bvf<u8, 2>, from_binary, scan_bin, 1, 5, 3, 8, 16);
h_parse_mb!(c15_t_binmb3_f8x2_n16, 22, Bvf<u8, 2>, from_binary, scan_bin, 1, 16, 3, 19, 16);
h_parse_mb!(c15_q_hexmb2_f8x1_n0, 5, Bvf<u8, 1>, from_hex, scan_hex, 4, 0, 2, 2, 8);
h_parse_mb!(c15_q_hexmb2_f8x1_n1, 6, Bvf<u8, 1>, from_hex, scan_hex, 4, 1, 2, 3, 8);
h_parse_mb!(c15_q_hexmb2_f8x1_n2, 7, Bvf<u8, 1>, from_hex, scan_hex, 4, 2, 2, 4, 8);
h_parse_mb!(c15_t_hexmb2_f8x1_n3, 8, Bvf<u8, 1>, from_hex, scan_hex, 4, 3, 2, 5, 8);
h_parse_mb!(c15_q_hexmb2_f8x2_n3, 8, Bvf<u8, 2>, from_hex, scan_hex, 4, 3, 2, 5, 16);
h_parse_mb!(c15_q_hexmb2_f8x2_n4, 9, Bvf<u8, 2>, from_hex, scan_hex, 4, 4, 2, 6, 16);
h_parse_mb!(c15_t_hexmb2_f8x2_n0, 5, Bvf<u8, 2>, from_hex, scan_hex, 4, 0, 2, 2, 16);
h_parse_mb!(c15_q_hexmb3_f8x2_n3, 9, Bvf<u8, 2>, from_hex, scan_hex, 4, 3, 3, 6, 16);
h_parse_mb!(c15_t_hexmb3_f8x2_n0, 6, Bvf<u8, 2>, from_hex, scan_hex, 4, 0, 3, 3, 16);
h_parse_mb!(c15_t_hexmb3_f8x2_n4, 10, Bvf<u8, 2>, from_hex, scan_hex, 4, 4, 3, 7, 16);
h_parse_mb!(c15_q_hexmb3_f16x1_n2, 8, Bvf<u16, 1>, from_hex, scan_hex, 4, 2, 3, 5, 16);
h_parse_mb!(c15_t_hexmb3_f16x1_n3, 9, Bvf<u16, 1>, from_hex, scan_hex, 4, 3, 3, 6, 16);
h_parse_mb!(c15_t_hexmb3_f16x1_n4, 10, Bvf<u16, 1>, from_hex, scan_hex, 4, 4, 3, 7, 16);
h_parse_mb!(c15_t_binmb2_bv_n4, 9, Bv, from_binary, scan_bin, 1, 4, 2, 6, NOCAP);


// ---- heap implementation: make the character count a syntactic constant ------------------------
// `Bvd::from_binary/from_hex` allocate `chars().count()` bits. For a string with symbolic bytes
// the count is a symbolic expression even when its value is forced, and a symbolic allocation
// size is out of CBMC's reach. The stub below computes the real count, *asserts* that it equals
// the number of characters the harness built the string with, and returns that constant.
#[cfg(kani)]
pub static mut EXPECTED_CHARS: usize = 0;
#[cfg(kani)]
pub fn chars_count_model<'a>(it: std::str::Chars<'a>) -> usize
where
    'a: 'a,
{
    let s = it.as_str().as_bytes();
    let mut n = 0usize;
    let mut i = 0;
    while i < s.len() {
        if (s[i] as i8) >= -64 {
            n += 1;
        }
        i += 1;
    }
    let want = unsafe { EXPECTED_CHARS };
    assert!(n == want, "HARNESS: the string does not have the number of characters the harness declared");
    want
}

macro_rules! h_parse_mb_heap {
    ($name:ident, $unw:literal, $T:ty, $f:ident, $scan:ident, $bits:literal, $n:literal, $w:literal, $nb:literal, $cap:expr) => {
        #[cfg_attr(kani, kani::proof)]
        #[cfg_attr(kani, kani::unwind($unw))]
        #[cfg_attr(kani, kani::stub(<core::str::Chars as core::iter::Iterator>::count, chars_count_model))]
        pub fn $name() {
            #[cfg(kani)]
            unsafe {
                EXPECTED_CHARS = $n + 1;
            }
            let a = ascii!($n);
            let p = nd::upto($n);
            let mb: [u8; 3] = if $w == 2 {
                [0xC2 + nd::upto(0x1D) as u8, 0x80 + nd::upto(0x3F) as u8, 0]
            } else {
                [0xE1 + nd::upto(0x0B) as u8, 0x80 + nd::upto(0x3F) as u8, 0x80 + nd::upto(0x3F) as u8]
            };
            let mut b = [0u8; $nb];
            let mut j = 0;
            while j < $nb {
                b[j] = if j < p { a[j] } else if j < p + $w { mb[j - p] } else { a[j - $w] };
                j += 1;
            }
            let sc = $scan(&a[..], $n);
            let bad = if sc.bad < p { sc.bad } else { p };
            let s: &str = unsafe { std::str::from_utf8_unchecked(&b[..]) };
            w!(bad == p, "the multi-byte character is the first offender");
            let r = <$T>::$f(s);
            judge!(r, ($n + 1), $bits, $cap, bad, Big::ZERO);
        }
    };
}
h_parse_mb_heap!(c15_q_binmb2_bvd_n1, 8, Bvd, from_binary, scan_bin, 1, 1, 2, 3, NOCAP);
h_parse_mb_heap!(c15_q_binmb3_bvd_n2, 9, Bvd, from_binary, scan_bin, 1, 2, 3, 5, NOCAP);
h_parse_mb_heap!(c15_q_hexmb2_bvd_n2, 8, Bvd, from_hex, scan_hex, 4, 2, 2, 4, NOCAP);

/// ASCII strings on the heap implementations with the character count pinned (see above).
macro_rules! h_parse_heap {
    ($name:ident, $unw:literal, $T:ty, $f:ident, $scan:ident, $bits:literal, $n:literal, $cap:expr) => {
        #[cfg_attr(kani, kani::proof)]
        #[cfg_attr(kani, kani::unwind($unw))]
        #[cfg_attr(kani, kani::stub(<core::str::Chars as core::iter::Iterator>::count, chars_count_model))]
        pub fn $name() {
            #[cfg(kani)]
            unsafe {
                EXPECTED_CHARS = $n;
            }
            let b = ascii!($n);
            let sc = $scan(&b[..], $n);
            let s: &str = unsafe { std::str::from_utf8_unchecked(&b[..]) };
            w!(sc.bad == $n, "every character is a digit");
            w!(sc.bad + 1 == $n, "only the last character offends");
            w!(sc.bad == 0, "the first character offends");
            let r = <$T>::$f(s);
            judge!(r, $n, $bits, $cap, sc.bad, sc.val);
        }
    };
}
h_parse_heap!(c15_q_bin_bvd_n2, 5, Bvd, from_binary, scan_bin, 1, 2, NOCAP);
h_parse_heap!(c15_q_bin_bvd_n9, 12, Bvd, from_binary, scan_bin, 1, 9, NOCAP);
h_parse_heap!(c15_q_hex_bvd_n3, 6, Bvd, from_hex, scan_hex, 4, 3, NOCAP);
h_parse_heap!(c15_t_hex_bvd_n17, 20, Bvd, from_hex, scan_hex, 4, 17, NOCAP);
h_parse_heap!(c15_t_bin_bvd_n65, 68, Bvd, from_binary, scan_bin, 1, 65, NOCAP);
h_parse_heap!(c15_t_hex_bv_n33, 36, Bv, from_hex, scan_hex, 4, 33, NOCAP);
