//! C15 harnesses (not written yet).
