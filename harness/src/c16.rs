//! C16 — bit-count queries report exact run lengths for every vector.
//!
//! Oracle, on the model value `(n, v)` (v < 2^n by the representation invariant), with
//! `inv = ~v mod 2^n`:
//!   significant_bits = index of the highest set bit + 1            = sig(v)
//!   leading_zeros    = n - sig(v)
//!   leading_ones     = n - sig(inv)
//!   trailing_zeros   = min(tz(v), n)
//!   trailing_ones    = min(tz(inv), n)
//!   is_zero          = (v == 0)
//! plus the consequences named in the statement (each <= n, = n on uniform vectors, 0 on
//! the empty vector, lz + sig = n, is_zero <=> sig = 0), asserted directly on the values
//! returned by the code. Lengths and contents are fully symbolic in every harness, so every
//! run ending at, one before and one after a storage-word boundary is included.
//!
//! Three harnesses per scope (`zl` = leading_zeros + significant_bits + is_zero, `ol` =
//! leading_ones, `tr` = trailing_zeros + trailing_ones): one query family per SAT problem is
//! several times cheaper than all six together. The queries take `&self`; the storage is
//! nevertheless compared afterwards (free with `into_raw`).
use crate::big::Big;
use crate::nd;
use crate::scopes::*;
use bva::{Bit, BitVector, Bv, Bvd, Bvf};

#[inline(always)]
fn umin(a: usize, b: usize) -> usize {
    if a < b {
        a
    } else {
        b
    }
}

/// Witnesses; `multi` = the scope has at least two storage words of `$B` bits.
macro_rules! wit_zl {
    (multi, $B:literal, $n:ident, $v:ident, $cap:expr) => {
        w!($n == 0, "empty vector");
        w!($cap >= $n + $B && $n > 0 && !$v.is_zero(), "non-zero vector with a spare storage word");
        w!($n > $B && $n % $B != 0 && $v.sig() == $n - $n % $B,
           "leading zero run covers exactly the partial top word (ends at a word boundary)");
        w!($n > $B && $n % $B == 0 && $v.sig() == $n - $B - 1,
           "len a multiple of the word size, leading zero run ends one bit after a word boundary");
        w!($n > $B && $n % $B != 0 && $v.is_zero(), "all zeros over a full word plus a partial word");
    };
    (single, $B:literal, $n:ident, $v:ident, $cap:expr) => {
        w!($n == 0, "empty vector");
        w!($n == $B && $v.is_zero(), "all zeros, len exactly the word size");
        w!($n > 2 && $n < $B && $v.sig() == $n - 1, "partial word, single leading zero");
        w!($n == $B && $v.sig() == $B, "full word, no leading zero");
    };
}
macro_rules! wit_ol {
    (multi, $B:literal, $n:ident, $v:ident, $inv:ident) => {
        w!($n == 0, "empty vector");
        w!($n > $B && $n % $B != 0 && $inv.is_zero(), "all ones over a full word followed by a partial word");
        w!($n > $B && $n % $B != 0 && $inv.sig() == $n - $n % $B,
           "leading one run covers exactly the partial top word (single zero just below the boundary)");
        w!($n > $B && $n % $B == 0 && $inv.sig() == $n - $B - 1,
           "len a multiple of the word size, leading one run ends one bit after a word boundary");
        w!($n > $B && $n % $B == 0 && $inv.is_zero(), "all ones, len a multiple of the word size");
    };
    (single, $B:literal, $n:ident, $v:ident, $inv:ident) => {
        w!($n == 0, "empty vector");
        w!($n == $B && $inv.is_zero(), "all ones, len exactly the word size");
        w!($n > 2 && $n < $B && $inv.sig() == $n - 1, "partial word, single leading one");
        w!($n > 0 && $n < $B && $inv.is_zero(), "all ones in a partial word");
    };
}
macro_rules! wit_tr {
    (multi, $B:literal, $n:ident, $v:ident, $inv:ident) => {
        w!($n == 0, "empty vector");
        w!($n > $B + 1 && $inv.tz() == $B - 1 && $v.bit($B),
           "trailing one run interrupted by a single zero one bit before a word boundary");
        w!($n > $B + 1 && $v.tz() == $B + 1, "trailing zero run ends one bit after a word boundary");
        w!($n > $B && $v.tz() == $B && $inv.tz() == 0, "trailing zero run ends exactly at a word boundary");
        w!($n > $B && $n % $B != 0 && ($v.is_zero() || $inv.is_zero()),
           "uniform vector over a full word plus a partial word");
    };
    (single, $B:literal, $n:ident, $v:ident, $inv:ident) => {
        w!($n == 0, "empty vector");
        w!($n == $B && $v.is_zero(), "all zeros, len exactly the word size");
        w!($n > 0 && $n < $B && $inv.is_zero(), "all ones in a partial word");
        w!($n > 2 && $v.tz() == 1 && $v.sig() == $n - 1, "one zero at each end");
    };
}

macro_rules! h_zl {
    ($name:ident, $unw:literal, $a:expr, $kind:ident, $B:literal) => {
        harness!($name, $unw, {
            let (a, ra) = $a;
            let n = ra.len;
            let v = ra.v;
            wit_zl!($kind, $B, n, v, ra.cap);
            let lz = a.leading_zeros();
            let sig = a.significant_bits();
            let z = a.is_zero();
            assert!(sig == v.sig(), "C16: significant_bits != index of highest set bit + 1");
            assert!(lz == n - v.sig(), "C16: leading_zeros != length of the zero run at the top");
            assert!(z == v.is_zero(), "C16: is_zero != (all bits zero)");
            // consequences, on the returned values themselves
            assert!(lz <= n && sig <= n, "C16: a count exceeds len");
            assert!(lz + sig == n, "C16: leading_zeros + significant_bits != len");
            assert!(z == (sig == 0), "C16: is_zero differs from significant_bits == 0");
            assert!(!v.is_zero() || lz == n, "C16: zero vector: leading_zeros != len");
            assert!(n != 0 || (lz == 0 && sig == 0 && z), "C16: empty vector: non-zero count or not zero");
            assert!(a.len() == n, "C16: len changed");
            assert!(a.into_raw() == ra, "C16: query modified the vector");
        });
    };
}

macro_rules! h_ol {
    ($name:ident, $unw:literal, $a:expr, $kind:ident, $B:literal) => {
        harness!($name, $unw, {
            let (a, ra) = $a;
            let n = ra.len;
            let v = ra.v;
            let inv = v.not().trunc(n);
            wit_ol!($kind, $B, n, v, inv);
            let lo = a.leading_ones();
            assert!(lo == n - inv.sig(), "C16: leading_ones != length of the one run at the top");
            assert!(lo <= n, "C16: a count exceeds len");
            assert!(!inv.is_zero() || lo == n, "C16: all-ones vector: leading_ones != len");
            assert!(n != 0 || lo == 0, "C16: empty vector: non-zero count");
            assert!(a.into_raw() == ra, "C16: query modified the vector");
        });
    };
}

macro_rules! h_tr {
    ($name:ident, $unw:literal, $a:expr, $kind:ident, $B:literal) => {
        harness!($name, $unw, {
            let (a, ra) = $a;
            let n = ra.len;
            let v = ra.v;
            let inv = v.not().trunc(n);
            wit_tr!($kind, $B, n, v, inv);
            let tz = a.trailing_zeros();
            let to = a.trailing_ones();
            assert!(tz == umin(v.tz(), n), "C16: trailing_zeros != length of the zero run at the bottom");
            assert!(to == umin(inv.tz(), n), "C16: trailing_ones != length of the one run at the bottom");
            assert!(tz <= n && to <= n, "C16: a count exceeds len");
            assert!(!v.is_zero() || tz == n, "C16: zero vector: trailing_zeros != len");
            assert!(!inv.is_zero() || to == n, "C16: all-ones vector: trailing_ones != len");
            assert!(n != 0 || (tz == 0 && to == 0), "C16: empty vector: non-zero count");
            assert!(a.into_raw() == ra, "C16: query modified the vector");
        });
    };
}

macro_rules! h_counts {
    ($zl:ident, $ol:ident, $tr:ident, $unw:literal, $a:expr, $kind:ident, $B:literal) => {
        h_zl!($zl, $unw, $a, $kind, $B);
        h_ol!($ol, $unw, $a, $kind, $B);
        h_tr!($tr, $unw, $a, $kind, $B);
    };
}

// ---- Bvf ---------------------------------------------------------------------------------
h_counts!(c16_q_zl_f8x1, c16_q_ol_f8x1, c16_q_tr_f8x1, 3, f8x1(anylen(8)), single, 8);
h_counts!(c16_q_zl_f8x2, c16_q_ol_f8x2, c16_q_tr_f8x2, 4, f8x2(anylen(16)), multi, 8);
h_counts!(c16_q_zl_f8x3, c16_q_ol_f8x3, c16_q_tr_f8x3, 5, f8x3(anylen(24)), multi, 8);
h_counts!(c16_q_zl_f8x4, c16_q_ol_f8x4, c16_q_tr_f8x4, 6, f8x4(anylen(32)), multi, 8);
h_counts!(c16_q_zl_f16x1, c16_q_ol_f16x1, c16_q_tr_f16x1, 3, f16x1(anylen(16)), single, 16);
h_counts!(c16_q_zl_f16x2, c16_q_ol_f16x2, c16_q_tr_f16x2, 4, f16x2(anylen(32)), multi, 16);
h_counts!(c16_q_zl_f32x2, c16_q_ol_f32x2, c16_q_tr_f32x2, 4, f32x2(anylen(64)), multi, 32);
h_counts!(c16_q_zl_f64x1, c16_q_ol_f64x1, c16_q_tr_f64x1, 3, f64x1(anylen(64)), single, 64);
h_counts!(c16_q_zl_f64x2, c16_q_ol_f64x2, c16_q_tr_f64x2, 4, f64x2(anylen(128)), multi, 64);
h_counts!(c16_q_zl_f32x1, c16_q_ol_f32x1, c16_q_tr_f32x1, 3, f32x1(anylen(32)), single, 32);
h_counts!(c16_q_zl_f64x3, c16_q_ol_f64x3, c16_q_tr_f64x3, 5, f64x3(anylen(192)), multi, 64);
h_counts!(c16_q_zl_fuszx2, c16_q_ol_fuszx2, c16_q_tr_fuszx2, 4, fuszx2(anylen(128)), multi, 64);
h_counts!(c16_q_zl_f128x1, c16_q_ol_f128x1, c16_q_tr_f128x1, 3, f128x1(anylen(128)), single, 128);
h_counts!(c16_q_zl_f128x2, c16_q_ol_f128x2, c16_q_tr_f128x2, 4, f128x2(anylen(256)), multi, 128);

// ---- Bvd: W allocated words, every len 0..=64 W (spare words whenever len <= 64 (W-1)) ------
h_counts!(c16_q_zl_bvd1, c16_q_ol_bvd1, c16_q_tr_bvd1, 3, bvd1(anylen(64)), single, 64);
h_counts!(c16_q_zl_bvd2, c16_q_ol_bvd2, c16_q_tr_bvd2, 4, bvd2(anylen(128)), multi, 64);
h_counts!(c16_q_zl_bvd3, c16_q_ol_bvd3, c16_q_tr_bvd3, 5, bvd3(anylen(192)), multi, 64);
h_counts!(c16_q_zl_bvd4, c16_q_ol_bvd4, c16_q_tr_bvd4, 6, bvd4(anylen(256)), multi, 64);

// ---- Bv, inline and heap mode ----------------------------------------------------------------
h_counts!(c16_q_zl_bvfix, c16_q_ol_bvfix, c16_q_tr_bvfix, 4, bvfix(anylen(128)), multi, 64);
h_counts!(c16_q_zl_bvdyn2, c16_q_ol_bvdyn2, c16_q_tr_bvdyn2, 4, bvdyn2(anylen(128)), multi, 64);
h_counts!(c16_q_zl_bvdyn1, c16_q_ol_bvdyn1, c16_q_tr_bvdyn1, 3, bvdyn1(anylen(64)), single, 64);
h_counts!(c16_q_zl_bvdyn3, c16_q_ol_bvdyn3, c16_q_tr_bvdyn3, 5, bvdyn3(anylen(192)), multi, 64);

/// The empty `Bvd` without any storage word (what `Bvd::zeros(0)` produces).
harness!(c16_q_bvd0, 2, {
    let (a, ra) = bvd0(0);
    w!(ra.cap == 0 && ra.len == 0, "no storage at all");
    assert!(a.leading_zeros() == 0 && a.leading_ones() == 0, "C16: empty vector: non-zero leading count");
    assert!(a.trailing_zeros() == 0 && a.trailing_ones() == 0, "C16: empty vector: non-zero trailing count");
    assert!(a.significant_bits() == 0 && a.is_zero(), "C16: empty vector: significant bits / not zero");
    assert!(a.into_raw() == ra, "C16: query modified the vector");
});
