//! C16 harnesses (not written yet).
