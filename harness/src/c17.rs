//! C17 — bit iterators behave like a slice iterator over the bits.
//!
//! Oracle: an index-range model `(s, e)` of `bits[..len].iter()` (`std::slice::Iter`), whose
//! answers are computed from the raw pre-state `(len, value)`. The model is validated
//! natively against `std::slice::Iter` in the `#[cfg(test)]` module at the bottom.
//!
//! Shape of a harness: two symbolic non-consuming calls (reach every state `0<=s<=e<=len`),
//! then a third symbolic call among *all* methods with any `usize` argument, then a fixed
//! probe `size_hint, next, next_back, next, next_back` which exposes the post-state (the
//! bits are symbolic, so any difference of the index pair is observable). The vector's raw
//! storage is compared with the pre-state at the end.
use crate::big::Big;
use crate::nd;
use crate::scopes::*;
use bva::{Bit, BitIterator, BitVector, Bv, Bvd, Bvf};

/// `bits[s..e]` of the list of bits of the vector: the whole state of a slice iterator.
#[derive(Clone, Copy, Debug, PartialEq, Eq)]
pub struct M {
    pub s: usize,
    pub e: usize,
}

impl M {
    #[inline(always)]
    pub fn next(&mut self, v: Big) -> Option<bool> {
        if self.s < self.e {
            let b = bit_at(v, self.s);
            self.s += 1;
            Some(b)
        } else {
            None
        }
    }
    #[inline(always)]
    pub fn next_back(&mut self, v: Big) -> Option<bool> {
        if self.s < self.e {
            self.e -= 1;
            Some(bit_at(v, self.e))
        } else {
            None
        }
    }
    #[inline(always)]
    pub fn nth(&mut self, v: Big, n: usize) -> Option<bool> {
        if n < self.e - self.s {
            let b = bit_at(v, self.s + n);
            self.s += n + 1;
            Some(b)
        } else {
            self.s = self.e;
            None
        }
    }
    #[inline(always)]
    pub fn nth_back(&mut self, v: Big, n: usize) -> Option<bool> {
        if n < self.e - self.s {
            self.e -= n + 1;
            Some(bit_at(v, self.e))
        } else {
            self.e = self.s;
            None
        }
    }
    #[inline(always)]
    pub fn rem(&self) -> usize {
        self.e - self.s
    }
    #[inline(always)]
    pub fn last(&self, v: Big) -> Option<bool> {
        if self.s < self.e {
            Some(bit_at(v, self.e - 1))
        } else {
            None
        }
    }
}

/// Bit `i` of a model value (cheaper for the solver than `Big::bit`: no cross-half shift).
#[inline(always)]
pub fn bit_at(v: Big, i: usize) -> bool {
    if i < 128 {
        (v.lo >> i) & 1 == 1
    } else if i < 256 {
        (v.hi >> (i - 128)) & 1 == 1
    } else {
        false
    }
}

#[inline(always)]
fn same(got: Option<Bit>, want: Option<bool>) -> bool {
    match (got, want) {
        (None, None) => true,
        (Some(g), Some(w)) => (g == Bit::One) == w,
        _ => false,
    }
}

/// One non-consuming call chosen by `sel` (0 next, 1 next_back, 2 nth(arg), 3 nth_back(arg),
/// 4 size_hint), checked against the model.
#[inline(always)]
fn step<I: DoubleEndedIterator<Item = Bit>>(it: &mut I, m: &mut M, v: Big, sel: usize, arg: usize) {
    if sel == 0 {
        let r = it.next();
        assert!(same(r, m.next(v)), "C17: next() differs from the slice iterator");
    } else if sel == 1 {
        let r = it.next_back();
        assert!(same(r, m.next_back(v)), "C17: next_back() differs from the slice iterator");
    } else if sel == 2 {
        let r = it.nth(arg);
        assert!(same(r, m.nth(v, arg)), "C17: nth(n) differs from the slice iterator");
    } else if sel == 3 {
        let r = it.nth_back(arg);
        assert!(same(r, m.nth_back(v, arg)), "C17: nth_back(n) differs from the slice iterator");
    } else {
        let r = it.size_hint();
        assert!(r == (m.rem(), Some(m.rem())), "C17: size_hint() differs from the slice iterator");
    }
}

/// The same on the reversed view: the model of `rev()` swaps the two ends.
#[inline(always)]
fn step_rev<I: DoubleEndedIterator<Item = Bit>>(it: &mut I, m: &mut M, v: Big, sel: usize, arg: usize) {
    if sel == 0 {
        let r = it.next();
        assert!(same(r, m.next_back(v)), "C17: rev().next() differs from the slice iterator");
    } else if sel == 1 {
        let r = it.next_back();
        assert!(same(r, m.next(v)), "C17: rev().next_back() differs from the slice iterator");
    } else if sel == 2 {
        let r = it.nth(arg);
        assert!(same(r, m.nth_back(v, arg)), "C17: rev().nth(n) differs from the slice iterator");
    } else if sel == 3 {
        let r = it.nth_back(arg);
        assert!(same(r, m.nth(v, arg)), "C17: rev().nth_back(n) differs from the slice iterator");
    } else {
        let r = it.size_hint();
        assert!(r == (m.rem(), Some(m.rem())), "C17: rev().size_hint() differs from the slice iterator");
    }
}

/// Fixed probe exposing the post-state; also checks "None for ever once exhausted".
#[inline(always)]
fn probe<I: DoubleEndedIterator<Item = Bit>>(it: &mut I, m: &mut M, v: Big) {
    let h = it.size_hint();
    assert!(h == (m.rem(), Some(m.rem())), "C17: size_hint() after the call sequence differs");
    let was_exhausted = m.rem() == 0;
    let r = it.next();
    assert!(same(r, m.next(v)), "C17: next() after the call sequence differs");
    let r = it.next_back();
    assert!(same(r, m.next_back(v)), "C17: next_back() after the call sequence differs");
    let r1 = it.next();
    assert!(same(r1, m.next(v)), "C17: second next() after the call sequence differs");
    let r2 = it.next_back();
    assert!(same(r2, m.next_back(v)), "C17: second next_back() after the call sequence differs");
    if was_exhausted {
        assert!(r.is_none() && r1.is_none() && r2.is_none(), "C17: exhausted iterator yielded an element");
        assert!(it.size_hint() == (0, Some(0)), "C17: exhausted iterator reports remaining elements");
    }
}

macro_rules! mk_iter {
    (iter, $a:ident) => {
        $a.iter()
    };
    (into, $a:ident) => {
        (&$a).into_iter()
    };
}

/// Two symbolic non-consuming calls, then any method (incl. the consuming `count`/`last`),
/// then the probe.
macro_rules! h_seq {
    ($name:ident, $unw:literal, $a:expr, $mk:ident) => {
        harness!($name, $unw, {
            let (a, ra) = $a;
            let n = ra.len;
            let v = ra.v;
            let mut m = M { s: 0, e: n };
            {
                let mut it = mk_iter!($mk, a);
                assert!(it.size_hint() == (n, Some(n)), "C17: fresh iterator does not span 0..len");
                let s1 = nd::upto(4);
                let a1 = nd::usize();
                step(&mut it, &mut m, v, s1, a1);
                let s2 = nd::upto(4);
                let a2 = nd::usize();
                step(&mut it, &mut m, v, s2, a2);
                let s3 = nd::upto(6);
                let a3 = nd::usize();
                w!(m.s > 0 && m.e < n && m.rem() > 1 && (s3 == 2 || s3 == 3) && a3 > 0 && a3 < m.rem(), "nth / nth_back hitting inside an iterator consumed from both ends");
                w!(m.rem() > 0 && (s3 == 2 || s3 == 3) && a3 == usize::MAX, "nth / nth_back with usize::MAX on a non-empty iterator");
                w!(m.s > 0 && m.rem() > 0 && s3 == 2 && a3 > usize::MAX - m.s, "start + n overflows usize");
                w!(m.rem() == 0 && n > 0, "third call on an exhausted iterator");
                w!(n == 0, "empty vector");
                if s3 == 5 {
                    let c = it.count();
                    assert!(c == m.rem(), "C17: count() differs from the slice iterator");
                } else if s3 == 6 {
                    let l = it.last();
                    assert!(same(l, m.last(v)), "C17: last() differs from the slice iterator");
                } else {
                    step(&mut it, &mut m, v, s3, a3);
                    w!(m.rem() > 0 && m.s > 0 && m.e < n, "probe on a partially consumed iterator");
                    probe(&mut it, &mut m, v);
                }
            }
            assert!(a.into_raw() == ra, "C17: iterating modified the vector");
        });
    };
}

/// Two symbolic calls, `rev()`, one symbolic call on the reversed iterator, probe (reversed).
macro_rules! h_rev {
    ($name:ident, $unw:literal, $a:expr, $mk:ident) => {
        harness!($name, $unw, {
            let (a, ra) = $a;
            let n = ra.len;
            let v = ra.v;
            let mut m = M { s: 0, e: n };
            {
                let mut it = mk_iter!($mk, a);
                let s1 = nd::upto(4);
                let a1 = nd::usize();
                step(&mut it, &mut m, v, s1, a1);
                let s2 = nd::upto(4);
                let a2 = nd::usize();
                step(&mut it, &mut m, v, s2, a2);
                let mut r = it.rev();
                let s3 = nd::upto(4);
                let a3 = nd::usize();
                w!(m.s > 0 && m.e < n && m.rem() > 1 && s3 == 2 && a3 > 0 && a3 < m.rem(), "rev().nth(n) inside an iterator consumed from both ends");
                w!(m.rem() > 0 && s3 >= 2 && s3 <= 3 && a3 == usize::MAX, "rev().nth / nth_back with usize::MAX");
                w!(m.rem() == 0 && n > 0, "rev() of an exhausted iterator");
                step_rev(&mut r, &mut m, v, s3, a3);
                // probe through the reversed view
                let h = r.size_hint();
                assert!(h == (m.rem(), Some(m.rem())), "C17: rev().size_hint() after the call sequence differs");
                let x = r.next();
                assert!(same(x, m.next_back(v)), "C17: rev().next() after the call sequence differs");
                let y = r.next_back();
                assert!(same(y, m.next(v)), "C17: rev().next_back() after the call sequence differs");
                let z = r.next();
                assert!(same(z, m.next_back(v)), "C17: second rev().next() after the call sequence differs");
            }
            assert!(a.into_raw() == ra, "C17: iterating modified the vector");
        });
    };
}

/// `rev().count()` / `rev().last()` / `rev()` driven by a `for` loop: std's default
/// implementations, which drain the iterator through `next_back` (per-bit loop).
macro_rules! h_revdrain {
    ($name:ident, $unw:literal, $a:expr, $mk:ident) => {
        harness!($name, $unw, {
            let (a, ra) = $a;
            let n = ra.len;
            let v = ra.v;
            let mut m = M { s: 0, e: n };
            {
                let mut it = mk_iter!($mk, a);
                let s1 = nd::upto(4);
                let a1 = nd::usize();
                step(&mut it, &mut m, v, s1, a1);
                let s2 = nd::upto(4);
                let a2 = nd::usize();
                step(&mut it, &mut m, v, s2, a2);
                w!(m.s > 0 && m.e < n && m.rem() > 1, "drained after consumption from both ends");
                w!(m.rem() == 0, "drained when already exhausted");
                if nd::bool() {
                    let c = it.rev().count();
                    assert!(c == m.rem(), "C17: rev().count() differs from the slice iterator");
                } else {
                    let l = it.rev().last();
                    let want = if m.s < m.e { Some(bit_at(v, m.s)) } else { None };
                    assert!(same(l, want), "C17: rev().last() differs from the slice iterator");
                }
            }
            assert!(a.into_raw() == ra, "C17: iterating modified the vector");
        });
    };
}

/// Full traversals: `for b in &a` yields bits 0..len-1 in order, `for b in a.iter().rev()` the
/// reverse, and `None` follows.
macro_rules! h_walk {
    ($name:ident, $unw:literal, $a:expr) => {
        harness!($name, $unw, {
            let (a, ra) = $a;
            let n = ra.len;
            w!(n == 0, "empty vector");
            w!(n > 8 && ra.v.bit(n - 1) && !ra.v.bit(0), "top bit set and bit 0 clear, more than one byte");
            let mut acc = Big::ZERO;
            let mut i = 0usize;
            for b in &a {
                if b == Bit::One {
                    acc = acc.or(Big::ONE.shl(i));
                }
                i += 1;
            }
            assert!(i == n, "C17: for-loop over &vector does not yield len items");
            assert!(acc == ra.v, "C17: for-loop over &vector yields the bits out of order");
            let mut acc = Big::ZERO;
            let mut j = n;
            let mut it = a.iter();
            while let Some(b) = it.next_back() {
                assert!(j > 0, "C17: next_back yields more than len items");
                j -= 1;
                if b == Bit::One {
                    acc = acc.or(Big::ONE.shl(j));
                }
            }
            assert!(j == 0 && acc == ra.v, "C17: backward traversal does not yield bits len-1..0");
            assert!(it.next().is_none() && it.next_back().is_none() && it.nth(0).is_none(), "C17: drained iterator yielded an element");
            assert!(a.into_raw() == ra, "C17: iterating modified the vector");
        });
    };
}

// ---- call sequences ----------------------------------------------------------------------
h_seq!(c17_q_seq_f8x2, 2, f8x2(anylen(16)), iter);
h_seq!(c17_q_seq_f8x2_into, 2, f8x2(anylen(16)), into);
h_seq!(c17_q_seq_f8x3, 2, f8x3(anylen(24)), iter);
h_seq!(c17_q_seq_f16x2, 2, f16x2(anylen(32)), into);
h_seq!(c17_q_seq_f64x2, 2, f64x2(anylen(128)), iter);
h_seq!(c17_q_seq_bvd2, 2, bvd2(anylen(128)), iter);
h_seq!(c17_t_seq_bvd2_into, 2, bvd2(anylen(128)), into);
h_seq!(c17_q_seq_bvfix, 2, bvfix(anylen(128)), iter);
h_seq!(c17_t_seq_bvfix_into, 2, bvfix(anylen(128)), into);
h_seq!(c17_q_seq_bvdyn2, 2, bvdyn2(anylen(128)), iter);
h_seq!(c17_t_seq_bvdyn2_into, 2, bvdyn2(anylen(128)), into);
h_seq!(c17_t_seq_f8x1, 2, f8x1(anylen(8)), iter);
h_seq!(c17_t_seq_f32x2, 2, f32x2(anylen(64)), iter);
h_seq!(c17_t_seq_fuszx2, 2, fuszx2(anylen(128)), into);
h_seq!(c17_t_seq_f128x2, 2, f128x2(anylen(256)), iter);
h_seq!(c17_t_seq_f64x3, 2, f64x3(anylen(192)), into);
h_seq!(c17_t_seq_bvd3, 2, bvd3(anylen(192)), iter);
h_seq!(c17_t_seq_bvd1, 2, bvd1(anylen(64)), into);
h_seq!(c17_t_seq_bvdyn3, 2, bvdyn3(anylen(192)), into);

// ---- rev() -------------------------------------------------------------------------------
h_rev!(c17_q_rev_f8x2, 2, f8x2(anylen(16)), iter);
h_rev!(c17_q_rev_f64x2, 2, f64x2(anylen(128)), into);
h_rev!(c17_q_rev_bvd2, 2, bvd2(anylen(128)), iter);
h_rev!(c17_q_rev_bvfix, 2, bvfix(anylen(128)), into);
h_rev!(c17_t_rev_bvdyn2, 2, bvdyn2(anylen(128)), iter);
h_rev!(c17_t_rev_f16x2, 2, f16x2(anylen(32)), iter);
h_rev!(c17_t_rev_bvd3, 2, bvd3(anylen(192)), into);
h_revdrain!(c17_q_revdrain_f8x2, 18, f8x2(anylen(16)), iter);
h_revdrain!(c17_t_revdrain_bvd1, 18, bvd1(anylen(16)), iter);
h_revdrain!(c17_t_revdrain_bvfix, 18, bvfix(anylen(16)), into);

// ---- full traversals (per-bit loops: unwind len + 2) -----------------------------------------
h_walk!(c17_q_walk_f8x2, 18, f8x2(anylen(16)));
h_walk!(c17_t_walk_f16x1, 18, f16x1(anylen(16)));
h_walk!(c17_q_walk_bvd1, 18, bvd1(anylen(16)));
h_walk!(c17_t_walk_bvfix, 18, bvfix(anylen(16)));
h_walk!(c17_t_walk_f8x3, 26, f8x3(anylen(24)));
h_walk!(c17_t_walk_bvdyn2, 18, bvdyn2(anylen(16)));

#[cfg(test)]
mod tests {
    use super::M;
    use crate::big::Big;

    /// The index-range model answers exactly like `std::slice::Iter` over the list of bits,
    /// for every call sequence of length 4 over every method, with arguments around every
    /// boundary, on every list length 0..=6 (exhaustive), and the post-states agree.
    #[test]
    fn model_matches_slice_iter() {
        let args = [0usize, 1, 2, 3, 5, 6, 7, usize::MAX - 1, usize::MAX];
        let mut calls: Vec<(usize, usize)> = vec![(0, 0), (1, 0), (4, 0)];
        for &a in &args {
            calls.push((2, a));
            calls.push((3, a));
        }
        for len in 0..=6usize {
            let val: u128 = 0b101101 & ((1u128 << len) - 1);
            let v = Big::lo(val);
            let bits: Vec<bool> = (0..len).map(|i| (val >> i) & 1 == 1).collect();
            // tag every element with its index so that positions, not just values, are compared
            let tagged: Vec<(usize, bool)> = bits.iter().cloned().enumerate().collect();
            let n = calls.len();
            for code in 0..n * n * n * n {
                let seq = [code % n, code / n % n, code / (n * n) % n, code / (n * n * n)];
                let mut it = tagged.iter();
                let mut m = M { s: 0, e: len };
                for &ci in &seq {
                    let (sel, a) = calls[ci];
                    match sel {
                        0 => {
                            let want_idx = if m.s < m.e { Some(m.s) } else { None };
                            assert_eq!(it.next().map(|t| t.1), m.next(v));
                            let _ = want_idx;
                        }
                        1 => assert_eq!(it.next_back().map(|t| t.1), m.next_back(v)),
                        2 => assert_eq!(it.nth(a).map(|t| t.1), m.nth(v, a)),
                        3 => assert_eq!(it.nth_back(a).map(|t| t.1), m.nth_back(v, a)),
                        _ => assert_eq!(it.size_hint(), (m.rem(), Some(m.rem()))),
                    }
                    // the remaining slice is exactly tagged[s..e] (or empty)
                    let rest = it.as_slice();
                    assert_eq!(rest.len(), m.rem());
                    if !rest.is_empty() {
                        assert_eq!(rest[0].0, m.s);
                        assert_eq!(rest[rest.len() - 1].0, m.e - 1);
                    }
                }
                assert_eq!(it.clone().count(), m.rem());
                assert_eq!(it.clone().last().map(|t| t.1), m.last(v));
                assert_eq!(it.clone().rev().last().map(|t| t.1), if m.s < m.e { Some(v.bit(m.s)) } else { None });
                assert_eq!(it.clone().rev().count(), m.rem());
            }
        }
    }
}
