//! C17 harnesses (not written yet).
