//! C02 — division and remainder are exact for every non-zero divisor; a zero divisor panics.
//!
//! Oracle for `(q, r) = a.div_rem(b)`: both have a's length, canonical raw storage,
//! `q*b + r == a` and `r < b` (which pins q = floor(a/b), r = a mod b uniquely). Long division
//! is a loop over `sig(a) - sig(b) + 1` steps, each a multi-word compare, subtract and shift, so
//! the scopes bound the quotient: all values for 8-bit dividends, quotient < 16 elsewhere.
use crate::big::{m128, Big};
use crate::nd;
use crate::scopes::*;
use bva::{Bit, BitVector, Bv, Bvd, Bvf};

/// q*b for q < 16, loop-free and without a symbolic multiplication.
#[inline(always)]
fn mul_small(q: Big, b: Big) -> Big {
    let mut acc = Big::ZERO;
    if q.bit(0) {
        acc = acc.add(b);
    }
    if q.bit(1) {
        acc = acc.add(b.shl(1));
    }
    if q.bit(2) {
        acc = acc.add(b.shl(2));
    }
    if q.bit(3) {
        acc = acc.add(b.shl(3));
    }
    acc
}

/// `div_rem` exists for bit-vector divisors only; native integer divisors go through `/`, `%`.
macro_rules! divrem {
    (($t:ty), $a:expr, $b:expr) => {
        $a.div_rem::<$t>(&$b)
    };
    (int, $a:expr, $b:expr) => {
        (&$a / &$b, &$a % &$b)
    };
}

/// 8-bit dividend against the native quotient/remainder; every operator form.
macro_rules! h_div8 {
    ($name:ident, $unw:literal, $maxlen:literal, $form:literal, $kind:tt, $b:expr) => {
        harness_cfs!($name, $unw, {
            let (a, ra) = f8x1(anylen($maxlen));
            let (b, rb) = $b;
            nd::assume(!rb.v.is_zero());
            let n = ra.len;
            let av = ra.v.lo as u8;
            w!(rb.cap <= 8 || (rb.len > 8 && rb.v.lo < 256 && rb.v.hi == 0 && rb.v.lo <= av as u128), "divisor longer than the dividend's capacity but small in value (when the divisor type allows it)");
            w!(rb.v.lo > av as u128 || rb.v.hi != 0, "divisor greater than the dividend");
            w!(n > 1 && rb.v.lo == 1 && rb.v.hi == 0, "division by one");
            let (wq, wr) = if rb.v.hi != 0 || rb.v.lo > 255 {
                (0u8, av)
            } else {
                (av / (rb.v.lo as u8), av % (rb.v.lo as u8))
            };
            let form: usize = $form;
            let (q, r) = if form == 0 {
                divrem!($kind, a, b)
            } else if form == 1 {
                (&a / &b, &a % &b)
            } else {
                let mut q = a;
                q /= &b;
                let mut r = a;
                r %= &b;
                (q, r)
            };
            let (q, r) = (q.into_raw(), r.into_raw());
            assert!(q.len == n && r.len == n, "C02: quotient/remainder length differs from the dividend's");
            assert!(q.v == Big::lo(wq as u128), "C02: quotient storage != floor(a / b)");
            assert!(r.v == Big::lo(wr as u128), "C02: remainder storage != a mod b");
            assert!(b.into_raw() == rb, "C02: divisor modified");
        });
    };
}

// quick: dividends up to 4 bits (unwind = 4 + 2); thorough: all 8-bit dividends
h_div8!(c02_t_div8_l3_f8x1, 5, 3, 0, (Bvf<u8, 1>), f8x1(anylen(8)));
h_div8!(c02_t_div8_l3_f8x2, 5, 3, 0, (Bvf<u8, 2>), f8x2(anylen(16)));
h_div8!(c02_t_div8_l3_u64, 9, 3, 1, int, iu64());
h_div8!(c02_t_div8_f8x1, 10, 8, 0, (Bvf<u8, 1>), f8x1(anylen(8)));
h_div8!(c02_t_div8_f8x1_ops, 10, 8, 1, (Bvf<u8, 1>), f8x1(anylen(8)));
h_div8!(c02_t_div8_f8x1_assign, 10, 8, 2, (Bvf<u8, 1>), f8x1(anylen(8)));
h_div8!(c02_t_div8_f8x2, 10, 8, 0, (Bvf<u8, 2>), f8x2(anylen(16)));
h_div8!(c02_t_div8_f16x1, 10, 8, 0, (Bvf<u16, 1>), f16x1(anylen(16)));
h_div8!(c02_t_div8_bvfix, 10, 8, 0, (Bv), bvfix(anylen(128)));
h_div8!(c02_t_div8_u8, 10, 8, 1, int, iu8());
h_div8!(c02_t_div8_u16, 10, 8, 1, int, iu16());
h_div8!(c02_t_div8_u32, 10, 8, 1, int, iu32());
h_div8!(c02_t_div8_u64, 10, 8, 1, int, iu64());
h_div8!(c02_t_div8_u128, 10, 8, 1, int, iu128());
h_div8!(c02_t_div8_usize, 10, 8, 1, int, iusize());

/// Wider dividends with the quotient bounded below 16 (sig(a) - sig(b) <= 3).
macro_rules! h_divq {
    ($name:ident, $unw:literal, $kind:tt, $a:expr, $b:expr) => {
        harness_cfs!($name, $unw, {
            let (a, ra) = $a;
            let (b, rb) = $b;
            nd::assume(!rb.v.is_zero());
            let n = ra.len;
            nd::assume(ra.v.sig() <= rb.v.sig() + 3);
            w!(rb.cap <= n || (rb.len > n && rb.v.sig() <= ra.v.sig()), "divisor longer than the dividend, quotient non-zero (when the divisor type allows it)");
            w!(ra.v.sig() == rb.v.sig() + 3, "four quotient bits");
            w!(ra.v.sig() > 8 && rb.v.sig() > 8, "dividend and divisor span more than one byte");
            let (q, r) = divrem!($kind, a, b);
            let (q, r) = (q.into_raw(), r.into_raw());
            assert!(q.len == n && r.len == n, "C02: quotient/remainder length differs from the dividend's");
            assert!(q.v.fits(4), "C02: quotient exceeds the bound implied by the significant bits");
            assert!(r.v.cmp(rb.v) == std::cmp::Ordering::Less, "C02: remainder >= divisor");
            assert!(mul_small(q.v, rb.v).add(r.v) == ra.v, "C02: q*b + r != a");
            assert!(q.v.fits(n) && r.v.fits(n), "C02: storage bits at index >= len in quotient/remainder");
            assert!(a.into_raw() == ra && b.into_raw() == rb, "C02: operand modified");
        });
    };
}

h_divq!(c02_t_divq_f8x2_f8x2, 6, (Bvf<u8, 2>), f8x2(anylen(16)), f8x2(anylen(16)));
h_divq!(c02_t_divq_f8x2_f8x3, 6, (Bvf<u8, 3>), f8x2(anylen(16)), f8x3(anylen(24)));
h_divq!(c02_t_divq_f8x2_f16x2, 6, (Bvf<u16, 2>), f8x2(anylen(16)), f16x2(anylen(32)));
h_divq!(c02_t_divq_f8x2_u32, 6, int, f8x2(anylen(16)), iu32());
h_divq!(c02_t_divq_f16x2_f8x3, 6, (Bvf<u8, 3>), f16x2(anylen(32)), f8x3(anylen(24)));

/// Same oracle with the quotient bounded below 4 (cheaper: quick tier).
macro_rules! h_divq2 {
    ($name:ident, $unw:literal, $kind:tt, $a:expr, $b:expr) => {
        harness_cfs!($name, $unw, {
            let (a, ra) = $a;
            let (b, rb) = $b;
            nd::assume(!rb.v.is_zero());
            let n = ra.len;
            nd::assume(ra.v.sig() <= rb.v.sig() + 1);
            w!(rb.cap <= n || (rb.len > n && rb.v.sig() <= ra.v.sig()), "divisor longer than the dividend, quotient non-zero (when the divisor type allows it)");
            w!(ra.v.sig() == rb.v.sig() + 1, "two quotient bits");
            w!(ra.v.sig() < rb.v.sig(), "divisor has more significant bits: quotient zero");
            let (q, r) = divrem!($kind, a, b);
            let (q, r) = (q.into_raw(), r.into_raw());
            assert!(q.len == n && r.len == n, "C02: quotient/remainder length differs from the dividend's");
            assert!(q.v.fits(2), "C02: quotient exceeds the bound implied by the significant bits");
            assert!(r.v.cmp(rb.v) == std::cmp::Ordering::Less, "C02: remainder >= divisor");
            assert!(mul_small(q.v, rb.v).add(r.v) == ra.v, "C02: q*b + r != a");
            assert!(q.v.fits(n) && r.v.fits(n), "C02: storage bits at index >= len in quotient/remainder");
            assert!(a.into_raw() == ra && b.into_raw() == rb, "C02: operand modified");
        });
    };
}

h_divq2!(c02_q_divq2_f8x2_f8x3, 4, (Bvf<u8, 3>), f8x2(anylen(16)), f8x3(anylen(24)));
h_divq2!(c02_t_divq2_f16x2_f16x2, 4, (Bvf<u16, 2>), f16x2(anylen(32)), f16x2(anylen(32)));
h_divq2!(c02_t_divq2_f64x2_f64x3, 4, (Bvf<u64, 3>), f64x2(anylen(128)), f64x3(anylen(192)));
h_divq2!(c02_t_divq2_f64x2_u128, 4, int, f64x2(anylen(128)), iu128());
// Heap-backed dividends allocate by length (zeros, clone, conversion of the divisor,
// resize): concrete lengths, symbolic contents.
h_divq2!(c02_q_divq2_bvd2_l70_bvd2_l100, 4, (Bvd), bvd2(70), bvd2(100));
h_divq2!(c02_q_divq2_f64x2_l70_f64x3_l130, 4, (Bvf<u64, 3>), f64x2(70), f64x3(130));
h_divq2!(c02_q_divq2_bvfix_l20_bvfix_l128, 4, (Bv), bvfix(20), bvfix(128));
h_divq2!(c02_q_divq2_bvd2_l65_f64x3_l130, 4, (Bvf<u64, 3>), bvd2(65), f64x3(130));
h_divq2!(c02_t_divq2_bvfix_l100_bvfix_l128, 4, (Bv), bvfix(100), bvfix(128));
h_divq2!(c02_t_divq2_bvd2_l128_u64, 4, int, bvd2(128), iu64());
h_divq!(c02_t_divq_bvd2_l128_bvd2_l128, 6, (Bvd), bvd2(128), bvd2(128));

// ---- zero divisor: every form must panic, for every dividend ---------------------------------
// The zero check is the first statement of div_rem, but CBMC still encodes the (dead) division
// behind it, so the scopes are small: what matters here is that every *form* and pairing
// reaches the check, not the values.

macro_rules! h_divzero {
    ($name:ident, $unw:literal, $kind:tt, $a:expr, $b:expr, |$av:ident, $bv:ident| $call:block) => {
        harness_mp_cfs!($name, $unw, {
            let ($av, ra) = $a;
            let ($bv, rb) = $b;
            nd::assume(rb.v.is_zero());
            $call;
            never!("NEVER:division by a zero-valued divisor returned");
        });
    };
}

h_divzero!(c02_q_divzero_divrem_f8x1_f8x2, 4, vec, f8x1(anylen(3)), f8x2(anylen(16)), |a, b| { let _ = a.div_rem::<Bvf<u8, 2>>(&b); });
h_divzero!(c02_q_divzero_div_f8x1_f8x2, 4, vec, f8x1(anylen(3)), f8x2(anylen(16)), |a, b| { let _ = &a / &b; });
h_divzero!(c02_q_divzero_rem_f8x1_f8x2, 4, vec, f8x1(anylen(3)), f8x2(anylen(16)), |a, b| { let _ = &a % &b; });
h_divzero!(c02_q_divzero_divassign_f8x1_f8x2, 4, vec, f8x1(anylen(3)), f8x2(anylen(16)), |a, b| { let mut x = a; x /= &b; });
h_divzero!(c02_q_divzero_remassign_f8x1_f8x2, 4, vec, f8x1(anylen(3)), f8x2(anylen(16)), |a, b| { let mut x = a; x %= b; });
h_divzero!(c02_q_divzero_div_f8x1_empty, 4, vec, f8x1(anylen(3)), f16x1(0), |a, b| { let _ = a / b; });
h_divzero!(c02_t_divzero_div_f8x1_u8, 9, int, f8x1(anylen(3)), iu8(), |a, b| { let _ = a / b; });
h_divzero!(c02_q_divzero_rem_f8x1_u128, 4, int, f8x1(anylen(3)), iu128(), |a, b| { let _ = &a % &b; });
h_divzero!(c02_q_divzero_divassign_f8x1_u32, 5, int, f8x1(anylen(3)), iu32(), |a, b| { let mut x = a; x /= b; });
h_divzero!(c02_q_divzero_rem_f8x1_bvfix, 4, vec, f8x1(anylen(3)), bvfix(anylen(128)), |a, b| { let _ = &a % &b; });
h_divzero!(c02_q_divzero_div_f64x2_l3_f64x2, 4, vec, f64x2(3), f64x2(anylen(128)), |a, b| { let _ = &a / &b; });
h_divzero!(c02_q_divzero_divrem_bvd1_l3_bvd2, 4, vec, bvd1(3), bvd2(70), |a, b| { let _ = a.div_rem::<Bvd>(&b); });
h_divzero!(c02_q_divzero_div_bvd1_l3_u64, 4, int, bvd1(3), iu64(), |a, b| { let _ = &a / &b; });
h_divzero!(c02_q_divzero_div_bvd1_l3_empty, 4, vec, bvd1(3), bvd0(0), |a, b| { let _ = &a / &b; });
h_divzero!(c02_q_divzero_divassign_bvfix_l3_u16, 5, int, bvfix(3), iu16(), |a, b| { let mut x = a; x /= b; });
h_divzero!(c02_q_divzero_remassign_bvdyn1_l3_u8, 9, int, bvdyn1(3), iu8(), |a, b| { let mut x = a; x %= &b; });


// ---- the `/` and `%` operators themselves (not div_rem) on one-word vectors of different word
// types, and on the other cheap pairings (kind `int` selects `(&a / &b, &a % &b)`) -----------------
h_divq2!(c02_q_divq2ops_f8x1_f16x1, 4, int, f8x1(anylen(8)), f16x1(anylen(16)));
h_divq2!(c02_q_divq2ops_f8x2_f8x3, 4, int, f8x2(anylen(16)), f8x3(anylen(24)));
h_divq2!(c02_t_divq2ops_f16x1_f64x1, 4, int, f16x1(anylen(16)), f64x1(anylen(64)));

// ---- a divisor that is longer than the dividend AND has set bits at or above the dividend's
// length (so it is numerically greater): quotient 0, remainder = dividend, for every dividend
// value. The divisor is concrete (several shapes), the dividend fully symbolic.
macro_rules! h_div_bigger_divisor {
    ($name:ident, $unw:literal, $t:ty, $a:expr, $mkb:expr) => {
        harness_cfs!($name, $unw, {
            let (a, ra) = $a;
            let b = $mkb;
            w!(!ra.v.is_zero(), "non-zero dividend");
            let (q, r) = a.div_rem::<$t>(&b);
            let (q, r) = (q.into_raw(), r.into_raw());
            assert!(q.len == ra.len && r.len == ra.len, "C02: quotient/remainder length differs from the dividend's");
            assert!(q.v.is_zero(), "C02: quotient != 0 although the divisor is greater than the dividend");
            assert!(r.v == ra.v, "C02: remainder != dividend although the divisor is greater than the dividend");
        });
    };
}
h_div_bigger_divisor!(c02_q_divbig_bvfix_l8_bvfix_0x103, 6, Bv, bvfix(8), Bv::Fixed(Bvf::new([0x0103u64, 0], 16)));
h_div_bigger_divisor!(c02_q_divbig_f8x1_f16x1_0x100, 6, Bvf<u16, 1>, f8x1(anylen(8)), Bvf::<u16, 1>::new([0x0100], 16));
h_div_bigger_divisor!(c02_q_divbig_bvd1_l8_bvd2_2p64, 6, Bvd, bvd1(8), Bvd::new(Box::new([5u64, 1u64]) as Box<[u64]>, 72));
h_div_bigger_divisor!(c02_t_divbig_bvdyn1_l8_bvfix_0x103, 6, Bv, bvdyn1(8), Bv::Fixed(Bvf::new([0x0103u64, 0], 16)));
