//! C02 harnesses (not written yet).
