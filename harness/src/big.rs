//! 256-bit unsigned model values used by all oracles. Loop-free on purpose: the harness
//! unwind bound applies to every loop, so oracle code must not contain any.

use std::cmp::Ordering;

#[derive(Clone, Copy, PartialEq, Eq, Debug)]
pub struct Big {
    pub hi: u128,
    pub lo: u128,
}

#[inline(always)]
pub fn m128(len: usize) -> u128 {
    if len >= 128 {
        u128::MAX
    } else {
        (1u128 << len) - 1
    }
}

#[inline(always)]
pub fn m64(len: usize) -> u64 {
    if len >= 64 {
        u64::MAX
    } else {
        (1u64 << len) - 1
    }
}

impl Big {
    pub const ZERO: Big = Big { hi: 0, lo: 0 };
    pub const ONE: Big = Big { hi: 0, lo: 1 };

    #[inline(always)]
    pub fn lo(x: u128) -> Big {
        Big { hi: 0, lo: x }
    }

    /// From four little-endian 64-bit limbs.
    #[inline(always)]
    pub fn limbs(w0: u64, w1: u64, w2: u64, w3: u64) -> Big {
        Big {
            lo: w0 as u128 | (w1 as u128) << 64,
            hi: w2 as u128 | (w3 as u128) << 64,
        }
    }

    #[inline(always)]
    pub fn limb(&self, i: usize) -> u64 {
        match i {
            0 => self.lo as u64,
            1 => (self.lo >> 64) as u64,
            2 => self.hi as u64,
            3 => (self.hi >> 64) as u64,
            _ => 0,
        }
    }

    /// 2^len - 1 (len >= 256 gives all ones).
    #[inline(always)]
    pub fn mask(len: usize) -> Big {
        if len >= 128 {
            Big {
                hi: m128(len - 128),
                lo: u128::MAX,
            }
        } else {
            Big {
                hi: 0,
                lo: m128(len),
            }
        }
    }

    #[inline(always)]
    pub fn trunc(self, len: usize) -> Big {
        self.and(Big::mask(len))
    }

    #[inline(always)]
    pub fn and(self, o: Big) -> Big {
        Big {
            hi: self.hi & o.hi,
            lo: self.lo & o.lo,
        }
    }
    #[inline(always)]
    pub fn or(self, o: Big) -> Big {
        Big {
            hi: self.hi | o.hi,
            lo: self.lo | o.lo,
        }
    }
    #[inline(always)]
    pub fn xor(self, o: Big) -> Big {
        Big {
            hi: self.hi ^ o.hi,
            lo: self.lo ^ o.lo,
        }
    }
    #[inline(always)]
    pub fn not(self) -> Big {
        Big {
            hi: !self.hi,
            lo: !self.lo,
        }
    }
    #[inline(always)]
    pub fn add(self, o: Big) -> Big {
        let (lo, c) = self.lo.overflowing_add(o.lo);
        Big {
            hi: self.hi.wrapping_add(o.hi).wrapping_add(c as u128),
            lo,
        }
    }
    #[inline(always)]
    pub fn sub(self, o: Big) -> Big {
        let (lo, b) = self.lo.overflowing_sub(o.lo);
        Big {
            hi: self.hi.wrapping_sub(o.hi).wrapping_sub(b as u128),
            lo,
        }
    }
    /// Logical shift left; any k >= 256 gives zero.
    #[inline(always)]
    pub fn shl(self, k: usize) -> Big {
        if k == 0 {
            self
        } else if k >= 256 {
            Big::ZERO
        } else if k >= 128 {
            Big {
                hi: self.lo << (k - 128),
                lo: 0,
            }
        } else {
            Big {
                hi: (self.hi << k) | (self.lo >> (128 - k)),
                lo: self.lo << k,
            }
        }
    }
    /// Logical shift right; any k >= 256 gives zero.
    #[inline(always)]
    pub fn shr(self, k: usize) -> Big {
        if k == 0 {
            self
        } else if k >= 256 {
            Big::ZERO
        } else if k >= 128 {
            Big {
                hi: 0,
                lo: self.hi >> (k - 128),
            }
        } else {
            Big {
                hi: self.hi >> k,
                lo: (self.lo >> k) | (self.hi << (128 - k)),
            }
        }
    }
    #[inline(always)]
    pub fn bit(self, i: usize) -> bool {
        self.shr(i).lo & 1 == 1
    }
    #[inline(always)]
    pub fn is_zero(self) -> bool {
        self.hi == 0 && self.lo == 0
    }
    #[inline(always)]
    pub fn cmp(self, o: Big) -> Ordering {
        if self.hi != o.hi {
            if self.hi < o.hi {
                Ordering::Less
            } else {
                Ordering::Greater
            }
        } else if self.lo != o.lo {
            if self.lo < o.lo {
                Ordering::Less
            } else {
                Ordering::Greater
            }
        } else {
            Ordering::Equal
        }
    }
    /// Index of the highest set bit plus one.
    #[inline(always)]
    pub fn sig(self) -> usize {
        if self.hi != 0 {
            256 - self.hi.leading_zeros() as usize
        } else {
            128 - self.lo.leading_zeros() as usize
        }
    }
    /// Number of trailing zero bits (256 for zero).
    #[inline(always)]
    pub fn tz(self) -> usize {
        if self.lo != 0 {
            self.lo.trailing_zeros() as usize
        } else if self.hi != 0 {
            128 + self.hi.trailing_zeros() as usize
        } else {
            256
        }
    }
    /// No bit at index >= len is set.
    #[inline(always)]
    pub fn fits(self, len: usize) -> bool {
        self.and(Big::mask(len).not()).is_zero()
    }
}

#[cfg(test)]
mod tests {
    use super::*;

    fn rnd(s: &mut u64) -> u64 {
        *s ^= *s << 13;
        *s ^= *s >> 7;
        *s ^= *s << 17;
        *s
    }

    // reference implementation on bit vectors of bools
    fn bits(b: Big) -> Vec<bool> {
        (0..256).map(|i| if i < 128 { (b.lo >> i) & 1 == 1 } else { (b.hi >> (i - 128)) & 1 == 1 }).collect()
    }
    fn from_bits(v: &[bool]) -> Big {
        let mut b = Big::ZERO;
        for i in 0..256 {
            if v[i] {
                if i < 128 {
                    b.lo |= 1 << i
                } else {
                    b.hi |= 1 << (i - 128)
                }
            }
        }
        b
    }

    #[test]
    fn big_ops_match_bit_reference() {
        let mut s = 0x9E3779B97F4A7C15u64;
        for round in 0..4000 {
            let mut a = Big::limbs(rnd(&mut s), rnd(&mut s), rnd(&mut s), rnd(&mut s));
            let mut b = Big::limbs(rnd(&mut s), rnd(&mut s), rnd(&mut s), rnd(&mut s));
            if round % 3 == 0 {
                a = a.trunc((rnd(&mut s) % 257) as usize);
            }
            if round % 5 == 0 {
                b = Big::mask((rnd(&mut s) % 257) as usize);
            }
            let k = (rnd(&mut s) % 300) as usize;
            let ab = bits(a);
            let bb = bits(b);
            // shl / shr
            let shl: Vec<bool> = (0..256).map(|i| i >= k && ab[i - k]).collect();
            assert_eq!(a.shl(k), from_bits(&shl));
            let shr: Vec<bool> = (0..256).map(|i| i + k < 256 && ab[i + k]).collect();
            assert_eq!(a.shr(k), from_bits(&shr));
            // mask / trunc
            let len = (rnd(&mut s) % 260) as usize;
            let tr: Vec<bool> = (0..256).map(|i| i < len && ab[i]).collect();
            assert_eq!(a.trunc(len), from_bits(&tr));
            assert_eq!(a.fits(len), (len..256).all(|i| !ab[i]));
            // add / sub by ripple carry
            let mut c = false;
            let mut sum = vec![false; 256];
            for i in 0..256 {
                let t = ab[i] as u8 + bb[i] as u8 + c as u8;
                sum[i] = t & 1 == 1;
                c = t >= 2;
            }
            assert_eq!(a.add(b), from_bits(&sum));
            assert_eq!(a.add(b).sub(b), a);
            // sig / tz / cmp
            let sig = (0..256).rev().find(|&i| ab[i]).map_or(0, |i| i + 1);
            assert_eq!(a.sig(), sig);
            let tz = (0..256).find(|&i| ab[i]).unwrap_or(256);
            assert_eq!(a.tz(), tz);
            let mut ord = Ordering::Equal;
            for i in (0..256).rev() {
                if ab[i] != bb[i] {
                    ord = if ab[i] { Ordering::Greater } else { Ordering::Less };
                    break;
                }
            }
            assert_eq!(a.cmp(b), ord);
            if k < 256 {
                assert_eq!(a.bit(k), ab[k]);
            }
            for i in 0..4 {
                assert_eq!(Big::limbs(a.limb(0), a.limb(1), a.limb(2), a.limb(3)), a);
                let _ = i;
            }
        }
    }
}
