//! C11 — conversions to and from native integers preserve the value and report overflow.
//!
//! Oracles (all on the raw storage of results, `into_raw()`):
//!  * `T::try_from(x)` / `T::try_from(&x)` / `T::from(x)` / `T::from(&x)` for a native unsigned
//!    `x` of width `w`: `Ok` with `len == min(w, capacity)`, storage `== x` iff
//!    `sig(x) <= capacity`, otherwise `Err(NotEnoughCapacity)` (never for `Bvd`/`Bv`).
//!  * `T::try_from(&[x0, x1, ..])` / `T::from(..)`: length `count * w`, storage
//!    `x0 | x1 << w | ..`, `Err(NotEnoughCapacity)` iff `count * w > capacity`.
//!  * `uN::try_from(&v)` / `uN::try_from(v)`: `Ok(val(v))` iff `sig(val(v)) <= w`, otherwise
//!    `Err(NotEnoughCapacity)`; a panic anywhere (e.g. on the empty vector) fails the harness.
//!  * `Bit <-> bool / uN`.
use crate::big::Big;
use crate::nd;
use crate::scopes::*;
use bva::{Bit, BitVector, Bv, Bvd, Bvf, ConvertionError};

// =============================================================================================
// integer -> vector
// =============================================================================================

/// One native type into one fixed type, by value and by reference.
macro_rules! int_to_bvf {
    ($T:ty, $I:ident) => {{
        let x: $I = nd::$I();
        let w = <$I>::BITS as usize;
        let cap = <$T>::capacity();
        let sig = Big::lo(x as u128).sig();
        w!(sig == if w < cap { w } else { cap }, "largest value that still fits (all of the integer or exactly the capacity)");
        w!(if w > cap { sig == cap + 1 } else { x == 0 }, "one significant bit more than the capacity (wide integers), zero otherwise");
        let _sep = nd::bool(); // keeps counterexample traces distinct from witness traces (playback dedupe)
        let by_val = <$T>::try_from(x);
        let by_ref = <$T>::try_from(&x);
        assert!(by_val.is_ok() == (sig <= cap), "C11: try_from(int) fails iff the value has more significant bits than the capacity");
        assert!(by_ref.is_ok() == (sig <= cap), "C11: try_from(&int) fails iff the value has more significant bits than the capacity");
        match by_val {
            Ok(v) => {
                let r = v.into_raw();
                assert!(r.len == if w < cap { w } else { cap }, "C11: try_from(int) length differs from min(width, capacity)");
                assert!(r.v == Big::lo(x as u128), "C11: try_from(int) storage differs from the integer");
            }
            Err(e) => assert!(e == ConvertionError::NotEnoughCapacity, "C11: try_from(int) wrong error"),
        }
        match by_ref {
            Ok(v) => {
                let r = v.into_raw();
                assert!(r.len == if w < cap { w } else { cap }, "C11: try_from(&int) length differs from min(width, capacity)");
                assert!(r.v == Big::lo(x as u128), "C11: try_from(&int) storage differs from the integer");
            }
            Err(e) => assert!(e == ConvertionError::NotEnoughCapacity, "C11: try_from(&int) wrong error"),
        }
    }};
}

/// All six native types into one fixed type.
macro_rules! h_ints_to_bvf {
    ($name:ident, $unw:literal, $T:ty) => {
        harness!($name, $unw, {
            int_to_bvf!($T, u8);
            int_to_bvf!($T, u16);
            int_to_bvf!($T, u32);
            int_to_bvf!($T, u64);
            int_to_bvf!($T, u128);
            int_to_bvf!($T, usize);
        });
    };
}

h_ints_to_bvf!(c11_q_ints_to_f8x1, 3, Bvf<u8, 1>);
h_ints_to_bvf!(c11_q_ints_to_f8x2, 4, Bvf<u8, 2>);
h_ints_to_bvf!(c11_q_ints_to_f8x3, 5, Bvf<u8, 3>);
h_ints_to_bvf!(c11_q_ints_to_f16x1, 3, Bvf<u16, 1>);
h_ints_to_bvf!(c11_q_ints_to_f16x2, 4, Bvf<u16, 2>);
h_ints_to_bvf!(c11_q_ints_to_f32x2, 4, Bvf<u32, 2>);
h_ints_to_bvf!(c11_q_ints_to_f64x2, 4, Bvf<u64, 2>);
h_ints_to_bvf!(c11_q_ints_to_f64x3, 5, Bvf<u64, 3>);
h_ints_to_bvf!(c11_q_ints_to_f8x4, 6, Bvf<u8, 4>);
h_ints_to_bvf!(c11_q_ints_to_f32x1, 3, Bvf<u32, 1>);
h_ints_to_bvf!(c11_q_ints_to_f64x1, 3, Bvf<u64, 1>);
h_ints_to_bvf!(c11_q_ints_to_fuszx2, 4, Bvf<usize, 2>);
h_ints_to_bvf!(c11_q_ints_to_f128x1, 3, Bvf<u128, 1>);
h_ints_to_bvf!(c11_q_ints_to_f128x2, 4, Bvf<u128, 2>);

/// One native type into `Bvd` (one allocation per harness: one form).
macro_rules! h_int_to_bvd {
    ($name:ident, $unw:literal, $I:ident, byval) => {
        h_int_to_bvd!(@body $name, $unw, $I, |x: $I| Bvd::from(x));
    };
    ($name:ident, $unw:literal, $I:ident, byref) => {
        h_int_to_bvd!(@body $name, $unw, $I, |x: $I| Bvd::from(&x));
    };
    (@body $name:ident, $unw:literal, $I:ident, $conv:expr) => {
        harness!($name, $unw, {
            let x: $I = nd::$I();
            let w = <$I>::BITS as usize;
            w!(x == 0, "zero");
            w!(x == <$I>::MAX, "all ones");
            w!(x != 0 && (x as u128) < 1u128 << (w - 1) && x & 1 == 0, "top and bottom bit clear, non-zero");
            let _sep = nd::bool(); // keeps counterexample traces distinct from witness traces (playback dedupe)
            let r = ($conv)(x).into_raw();
            assert!(r.len == w, "C11: Bvd::from(int) length differs from the integer width");
            assert!(r.v == Big::lo(x as u128), "C11: Bvd::from(int) storage differs from the integer");
            assert!(r.len <= r.cap, "C11: len > capacity");
        });
    };
}

h_int_to_bvd!(c11_q_u8_to_bvd, 10, u8, byval);
h_int_to_bvd!(c11_q_u16_to_bvd, 6, u16, byval);
h_int_to_bvd!(c11_q_u32_to_bvd, 4, u32, byval);
h_int_to_bvd!(c11_q_u64_to_bvd, 4, u64, byval);
h_int_to_bvd!(c11_q_u128_to_bvd, 4, u128, byval);
h_int_to_bvd!(c11_q_usize_to_bvd, 4, usize, byval);
h_int_to_bvd!(c11_q_u8ref_to_bvd, 10, u8, byref);
h_int_to_bvd!(c11_q_u64ref_to_bvd, 4, u64, byref);
h_int_to_bvd!(c11_q_u128ref_to_bvd, 4, u128, byref);
h_int_to_bvd!(c11_q_u16ref_to_bvd, 6, u16, byref);
h_int_to_bvd!(c11_q_u32ref_to_bvd, 4, u32, byref);
h_int_to_bvd!(c11_q_usizeref_to_bvd, 4, usize, byref);

/// One native type into `Bv`, both forms (every native width fits the inline storage).
macro_rules! int_to_bv {
    ($I:ident) => {{
        let x: $I = nd::$I();
        let w = <$I>::BITS as usize;
        w!(x == <$I>::MAX, "all ones");
        w!(x == 0, "zero");
        let _sep = nd::bool(); // keeps counterexample traces distinct from witness traces (playback dedupe)
        let r = Bv::from(x).into_raw();
        assert!(r.len == w && r.v == Big::lo(x as u128), "C11: Bv::from(int) is not (width, value)");
        assert!(r.len <= r.cap, "C11: len > capacity");
        let r = Bv::from(&x).into_raw();
        assert!(r.len == w && r.v == Big::lo(x as u128), "C11: Bv::from(&int) is not (width, value)");
        assert!(r.len <= r.cap, "C11: len > capacity");
    }};
}

harness!(c11_q_ints_to_bv_narrow, 4, {
    int_to_bv!(u8);
    int_to_bv!(u16);
    int_to_bv!(u32);
});
harness!(c11_q_ints_to_bv_wide, 4, {
    int_to_bv!(u64);
    int_to_bv!(u128);
    int_to_bv!(usize);
});

// =============================================================================================
// slice of integers -> vector
// =============================================================================================

/// Model of a slice `[x0, x1, x2, x3][..count]` of elements of width `w`.
#[inline(always)]
fn concat(count: usize, w: usize, x0: u128, x1: u128, x2: u128, x3: u128) -> Big {
    let mut v = Big::ZERO;
    if count > 0 {
        v = v.or(Big::lo(x0));
    }
    if count > 1 {
        v = v.or(Big::lo(x1).shl(w));
    }
    if count > 2 {
        v = v.or(Big::lo(x2).shl(2 * w));
    }
    if count > 3 {
        v = v.or(Big::lo(x3).shl(3 * w));
    }
    v
}

/// One slice length into a fixed type.
macro_rules! slice_to_bvf {
    ($T:ty, $J:ident, $arr:ident, $count:literal) => {{
        let w = <$J>::BITS as usize;
        let cap = <$T>::capacity();
        let s: &[$J] = &$arr[..$count];
        let want = concat($count, w, $arr[0] as u128, $arr[1] as u128, $arr[2] as u128, $arr[3] as u128);
        match <$T>::try_from(s) {
            Ok(v) => {
                let r = v.into_raw();
                assert!($count * w <= cap, "C11: try_from(slice) succeeded although count*width exceeds the capacity");
                assert!(r.len == $count * w, "C11: try_from(slice) length differs from count*width");
                assert!(r.v == want, "C11: try_from(slice) storage differs from the concatenation (element 0 least significant)");
            }
            Err(e) => {
                assert!($count * w > cap, "C11: try_from(slice) failed although count*width fits the capacity");
                assert!(e == ConvertionError::NotEnoughCapacity, "C11: try_from(slice) wrong error");
            }
        }
    }};
}

/// Slices of 0..=4 symbolic elements of type `J` into the fixed type `T`.
macro_rules! h_slice_to_bvf {
    ($name:ident, $unw:literal, $T:ty, $J:ident) => {
        harness!($name, $unw, {
            let arr: [$J; 4] = [nd::$J(), nd::$J(), nd::$J(), nd::$J()];
            w!(arr[0] == <$J>::MAX && arr[1] == 0, "element 0 all ones, element 1 zero");
            w!(arr[0] == 0 && arr[1] != 0, "element 0 zero, element 1 non-zero");
            w!(arr[0] != arr[1] && arr[1] != arr[2] && arr[2] != arr[3], "distinct neighbours");
            let _sep = nd::bool(); // keeps counterexample traces distinct from witness traces (playback dedupe)
            slice_to_bvf!($T, $J, arr, 0);
            slice_to_bvf!($T, $J, arr, 1);
            slice_to_bvf!($T, $J, arr, 2);
            slice_to_bvf!($T, $J, arr, 3);
            slice_to_bvf!($T, $J, arr, 4);
        });
    };
}

// element narrower than / equal to / wider than the storage word
h_slice_to_bvf!(c11_q_slice_u8_to_f8x2, 6, Bvf<u8, 2>, u8);
h_slice_to_bvf!(c11_q_slice_u8_to_f8x3, 6, Bvf<u8, 3>, u8);
h_slice_to_bvf!(c11_q_slice_u16_to_f8x3, 6, Bvf<u8, 3>, u16);
h_slice_to_bvf!(c11_q_slice_u8_to_f16x2, 6, Bvf<u16, 2>, u8);
h_slice_to_bvf!(c11_q_slice_u16_to_f16x2, 6, Bvf<u16, 2>, u16);
h_slice_to_bvf!(c11_q_slice_u32_to_f16x2, 6, Bvf<u16, 2>, u32);
h_slice_to_bvf!(c11_q_slice_u32_to_f64x2, 6, Bvf<u64, 2>, u32);
h_slice_to_bvf!(c11_q_slice_u64_to_f64x2, 6, Bvf<u64, 2>, u64);
h_slice_to_bvf!(c11_q_slice_u128_to_f64x2, 6, Bvf<u64, 2>, u128);
h_slice_to_bvf!(c11_q_slice_u8_to_f64x2, 6, Bvf<u64, 2>, u8);
h_slice_to_bvf!(c11_q_slice_u64_to_f8x3, 10, Bvf<u8, 3>, u64);
h_slice_to_bvf!(c11_q_slice_u64_to_f64x3, 6, Bvf<u64, 3>, u64);
h_slice_to_bvf!(c11_q_slice_usize_to_f64x2, 6, Bvf<u64, 2>, usize);
h_slice_to_bvf!(c11_q_slice_u16_to_f32x2, 6, Bvf<u32, 2>, u16);
h_slice_to_bvf!(c11_q_slice_u64_to_f128x2, 6, Bvf<u128, 2>, u64);

/// One concrete slice length into `Bvd` or `Bv` (the conversion allocates by length).
macro_rules! h_slice_to_heap {
    ($name:ident, $unw:literal, $T:ty, $J:ident, $count:literal) => {
        harness!($name, $unw, {
            let arr: [$J; 4] = [nd::$J(), nd::$J(), nd::$J(), nd::$J()];
            let w = <$J>::BITS as usize;
            w!($count == 0 || arr[0] == <$J>::MAX, "empty slice, or element 0 all ones");
            w!($count < 2 || (arr[0] == 0 && arr[1] != 0), "fewer than two elements, or element 0 zero and element 1 non-zero");
            w!($count < 3 || (arr[2] != 0 && arr[1] == 0), "fewer than three elements, or element 2 non-zero above a zero element 1");
            let _sep = nd::bool(); // keeps counterexample traces distinct from witness traces (playback dedupe)
            let s: &[$J] = &arr[..$count];
            let want = concat($count, w, arr[0] as u128, arr[1] as u128, arr[2] as u128, arr[3] as u128);
            let r = <$T>::from(s).into_raw();
            assert!(r.len == $count * w, "C11: from(slice) length differs from count*width");
            assert!(r.v == want, "C11: from(slice) storage differs from the concatenation (element 0 least significant)");
            assert!(r.len <= r.cap, "C11: len > capacity");
        });
    };
}

h_slice_to_heap!(c11_q_slice0_u8_to_bvd, 4, Bvd, u8, 0);
h_slice_to_heap!(c11_q_slice1_u8_to_bvd, 4, Bvd, u8, 1);
h_slice_to_heap!(c11_q_slice3_u8_to_bvd, 5, Bvd, u8, 3);
h_slice_to_heap!(c11_q_slice2_u16_to_bvd, 4, Bvd, u16, 2);
h_slice_to_heap!(c11_q_slice3_u32_to_bvd, 5, Bvd, u32, 3);
h_slice_to_heap!(c11_q_slice1_u64_to_bvd, 4, Bvd, u64, 1);
h_slice_to_heap!(c11_q_slice3_u64_to_bvd, 5, Bvd, u64, 3);
h_slice_to_heap!(c11_q_slice2_u128_to_bvd, 4, Bvd, u128, 2);
h_slice_to_heap!(c11_q_slice4_u8_to_bvd, 6, Bvd, u8, 4);
h_slice_to_heap!(c11_q_slice4_u64_to_bvd, 6, Bvd, u64, 4);
h_slice_to_heap!(c11_q_slice1_u128_to_bvd, 4, Bvd, u128, 1);
h_slice_to_heap!(c11_q_slice2_usize_to_bvd, 4, Bvd, usize, 2);
h_slice_to_heap!(c11_q_slice0_u64_to_bvd, 4, Bvd, u64, 0);
// Bv: inline up to 128 bits, heap above
h_slice_to_heap!(c11_q_slice0_u8_to_bv, 4, Bv, u8, 0);
h_slice_to_heap!(c11_q_slice3_u8_to_bv, 5, Bv, u8, 3);
h_slice_to_heap!(c11_q_slice2_u64_to_bv, 4, Bv, u64, 2);
h_slice_to_heap!(c11_q_slice3_u64_to_bv, 5, Bv, u64, 3);
h_slice_to_heap!(c11_q_slice1_u128_to_bv, 4, Bv, u128, 1);
h_slice_to_heap!(c11_q_slice2_u128_to_bv, 4, Bv, u128, 2);
h_slice_to_heap!(c11_q_slice4_u32_to_bv, 6, Bv, u32, 4);
h_slice_to_heap!(c11_q_slice3_u16_to_bv, 5, Bv, u16, 3);

// =============================================================================================
// vector -> integer
// =============================================================================================

/// `uN::try_from(&v)` against the model value.
macro_rules! vec_to_int_ref {
    ($v:ident, $rv:ident, $I:ident) => {{
        let w = <$I>::BITS as usize;
        let sig = $rv.v.sig();
        w!(sig == if w < $rv.cap { w } else { $rv.cap }, "value as wide as the integer (or as the whole vector if that is narrower)");
        w!(if $rv.cap > w { sig == w + 1 } else { $rv.len == $rv.cap }, "one significant bit too many (or full-length vector if it cannot be wider)");
        let _sep = nd::bool(); // keeps counterexample traces distinct from witness traces (playback dedupe)
        match <$I>::try_from(&$v) {
            Ok(x) => {
                assert!(sig <= w, "C11: try_from(&vector) succeeded although the value does not fit the integer");
                assert!(Big::lo(x as u128) == $rv.v, "C11: try_from(&vector) returned a different value");
            }
            Err(e) => {
                assert!(sig > w, "C11: try_from(&vector) failed although the value fits the integer");
                assert!(e == ConvertionError::NotEnoughCapacity, "C11: try_from(&vector) wrong error");
            }
        }
    }};
}

/// `uN::try_from(v)` (consumes `v`).
macro_rules! vec_to_int_val {
    ($v:expr, $rv:ident, $I:ident) => {{
        let w = <$I>::BITS as usize;
        let sig = $rv.v.sig();
        match <$I>::try_from($v) {
            Ok(x) => {
                assert!(sig <= w, "C11: try_from(vector) succeeded although the value does not fit the integer");
                assert!(Big::lo(x as u128) == $rv.v, "C11: try_from(vector) returned a different value");
            }
            Err(e) => {
                assert!(sig > w, "C11: try_from(vector) failed although the value fits the integer");
                assert!(e == ConvertionError::NotEnoughCapacity, "C11: try_from(vector) wrong error");
            }
        }
    }};
}

/// A `Copy` source (`Bvf`): three integer types, by reference and by value.
macro_rules! h_bvf_to_ints {
    ($name:ident, $unw:literal, $src:expr, $I1:ident, $I2:ident, $I3:ident) => {
        harness!($name, $unw, {
            let (v, rv) = $src;
            w!(rv.len == 0, "empty vector");
            w!(rv.len == rv.cap && rv.v.is_zero(), "full-length zero vector");
            vec_to_int_ref!(v, rv, $I1);
            vec_to_int_ref!(v, rv, $I2);
            vec_to_int_ref!(v, rv, $I3);
            vec_to_int_val!(v, rv, $I1);
            vec_to_int_val!(v, rv, $I2);
            vec_to_int_val!(v, rv, $I3);
            assert!(v.into_raw() == rv, "C11: source modified");
        });
    };
}

h_bvf_to_ints!(c11_q_f8x1_to_narrow, 6, f8x1(anylen(8)), u8, u16, u32);
h_bvf_to_ints!(c11_q_f8x2_to_narrow, 6, f8x2(anylen(16)), u8, u16, u32);
h_bvf_to_ints!(c11_q_f8x2_to_wide, 18, f8x2(anylen(16)), u64, u128, usize);
h_bvf_to_ints!(c11_q_f8x3_to_narrow, 6, f8x3(anylen(24)), u8, u16, u32);
h_bvf_to_ints!(c11_q_f16x2_to_narrow, 4, f16x2(anylen(32)), u8, u16, u32);
h_bvf_to_ints!(c11_q_f16x2_to_wide, 10, f16x2(anylen(32)), u64, u128, usize);
h_bvf_to_ints!(c11_q_f64x2_to_narrow, 4, f64x2(anylen(128)), u8, u16, u32);
h_bvf_to_ints!(c11_q_f64x2_to_wide, 4, f64x2(anylen(128)), u64, u128, usize);
h_bvf_to_ints!(c11_q_f8x3_to_wide, 18, f8x3(anylen(24)), u64, u128, usize);
h_bvf_to_ints!(c11_q_f32x2_to_narrow, 4, f32x2(anylen(64)), u8, u16, u32);
h_bvf_to_ints!(c11_q_f32x2_to_wide, 6, f32x2(anylen(64)), u64, u128, usize);
h_bvf_to_ints!(c11_t_f64x3_to_narrow, 5, f64x3(anylen(192)), u8, u16, u32);
h_bvf_to_ints!(c11_t_f64x3_to_wide, 5, f64x3(anylen(192)), u64, u128, usize);
h_bvf_to_ints!(c11_t_f128x2_to_narrow, 4, f128x2(anylen(256)), u8, u16, u32);
h_bvf_to_ints!(c11_t_f128x2_to_wide, 4, f128x2(anylen(256)), u64, u128, usize);
h_bvf_to_ints!(c11_q_fuszx2_to_wide, 4, fuszx2(anylen(128)), u64, u128, usize);

/// A heap source: all six integer types by reference (no allocation involved).
macro_rules! h_heap_to_ints_ref {
    ($name:ident, $unw:literal, $src:expr) => {
        harness!($name, $unw, {
            let (v, rv) = $src;
            w!(rv.len == 0, "empty vector");
            w!(rv.len == rv.cap && rv.v.is_zero(), "full-length zero vector");
            w!((rv.cap < 128 || rv.cap >= rv.len + 64) && rv.len + 8 <= rv.cap && !rv.v.is_zero(), "non-zero value below unused storage (a whole spare word if there are two or more words)");
            vec_to_int_ref!(v, rv, u8);
            vec_to_int_ref!(v, rv, u16);
            vec_to_int_ref!(v, rv, u32);
            vec_to_int_ref!(v, rv, u64);
            vec_to_int_ref!(v, rv, u128);
            vec_to_int_ref!(v, rv, usize);
            assert!(v.into_raw() == rv, "C11: source modified");
        });
    };
}

h_heap_to_ints_ref!(c11_q_bvd1_to_ints, 4, bvd1(anylen(64)));
h_heap_to_ints_ref!(c11_q_bvd2_to_ints, 4, bvd2(anylen(128)));
h_heap_to_ints_ref!(c11_q_bvd3_to_ints, 5, bvd3(anylen(192)));
h_heap_to_ints_ref!(c11_q_bvdyn2_to_ints, 4, bvdyn2(anylen(128)));
h_heap_to_ints_ref!(c11_q_bvdyn3_to_ints, 5, bvdyn3(anylen(192)));
h_heap_to_ints_ref!(c11_t_bvd4_to_ints, 6, bvd4(anylen(256)));
h_heap_to_ints_ref!(c11_q_bvdyn1_to_ints, 4, bvdyn1(anylen(64)));

// `Bvd` with no storage at all (`len == 0`, zero words).
harness!(c11_q_bvd0_to_ints, 3, {
    let (v, rv) = bvd0(0);
    w!(rv.len == 0 && rv.cap == 0, "empty vector without storage");
    let _sep = nd::bool(); // keeps counterexample traces distinct from witness traces (playback dedupe)
    assert!(u8::try_from(&v) == Ok(0), "C11: u8::try_from(&empty) is not Ok(0)");
    assert!(u16::try_from(&v) == Ok(0), "C11: u16::try_from(&empty) is not Ok(0)");
    assert!(u32::try_from(&v) == Ok(0), "C11: u32::try_from(&empty) is not Ok(0)");
    assert!(u64::try_from(&v) == Ok(0), "C11: u64::try_from(&empty) is not Ok(0)");
    assert!(u128::try_from(&v) == Ok(0), "C11: u128::try_from(&empty) is not Ok(0)");
    assert!(usize::try_from(&v) == Ok(0), "C11: usize::try_from(&empty) is not Ok(0)");
});

/// A heap source consumed by value: one integer type per harness.
macro_rules! h_heap_to_int_val {
    ($name:ident, $unw:literal, $src:expr, $I:ident) => {
        harness!($name, $unw, {
            let (v, rv) = $src;
            let w = <$I>::BITS as usize;
            w!(rv.len == 0, "empty vector");
            w!(rv.v.sig() == w, "value needs exactly the integer's width");
            w!(rv.v.sig() == w + 1 || rv.len == rv.cap, "one significant bit too many, or full-length vector");
            let _sep = nd::bool(); // keeps counterexample traces distinct from witness traces (playback dedupe)
            vec_to_int_val!(v, rv, $I);
        });
    };
}

h_heap_to_int_val!(c11_q_bvd2_into_u8, 4, bvd2(anylen(128)), u8);
h_heap_to_int_val!(c11_q_bvd2_into_u16, 4, bvd2(anylen(128)), u16);
h_heap_to_int_val!(c11_q_bvd2_into_u32, 4, bvd2(anylen(128)), u32);
h_heap_to_int_val!(c11_q_bvd2_into_u64, 4, bvd2(anylen(128)), u64);
h_heap_to_int_val!(c11_q_bvd3_into_u128, 5, bvd3(anylen(192)), u128);
h_heap_to_int_val!(c11_q_bvd2_into_usize, 4, bvd2(anylen(128)), usize);
h_heap_to_int_val!(c11_q_bvdyn2_into_u64, 4, bvdyn2(anylen(128)), u64);
h_heap_to_int_val!(c11_q_bvdyn3_into_u128, 5, bvdyn3(anylen(192)), u128);
h_heap_to_int_val!(c11_q_bvdyn2_into_u8, 4, bvdyn2(anylen(128)), u8);
h_heap_to_int_val!(c11_q_bvd1_into_u32, 4, bvd1(anylen(64)), u32);

// `Bv` in inline mode: by reference (all six) and by value (one type per harness, `Bv` is
// not `Copy`).
h_heap_to_ints_ref!(c11_q_bvfix_to_ints, 4, bvfix(anylen(128)));
h_heap_to_int_val!(c11_q_bvfix_into_u8, 4, bvfix(anylen(128)), u8);
h_heap_to_int_val!(c11_q_bvfix_into_u64, 4, bvfix(anylen(128)), u64);
h_heap_to_int_val!(c11_q_bvfix_into_u128, 4, bvfix(anylen(128)), u128);
h_heap_to_int_val!(c11_q_bvfix_into_u16, 4, bvfix(anylen(128)), u16);
h_heap_to_int_val!(c11_q_bvfix_into_u32, 4, bvfix(anylen(128)), u32);
h_heap_to_int_val!(c11_q_bvfix_into_usize, 4, bvfix(anylen(128)), usize);

// =============================================================================================
// Bit <-> bool / integers
// =============================================================================================

macro_rules! bit_int {
    ($I:ident) => {{
        let x: $I = nd::$I();
        w!(x > 1, "integer other than 0 and 1");
        w!(x == 0, "zero");
        let _sep = nd::bool(); // keeps counterexample traces distinct from witness traces (playback dedupe)
        let b = Bit::from(x);
        assert!((b == Bit::Zero) == (x == 0) && (b == Bit::One) == (x != 0), "C11: Bit::from(int) is not Zero for 0 and One otherwise");
        assert!(<$I>::from(Bit::Zero) == 0 && <$I>::from(Bit::One) == 1, "C11: int::from(Bit) is not 0 / 1");
        let c = nd::bit();
        assert!(Bit::from(<$I>::from(c)) == c, "C11: Bit -> int -> Bit does not round-trip");
    }};
}

harness!(c11_q_bit_conversions, 2, {
    bit_int!(u8);
    bit_int!(u16);
    bit_int!(u32);
    bit_int!(u64);
    bit_int!(u128);
    bit_int!(usize);
    let t = nd::bool();
    w!(t, "true");
    w!(!t, "false");
    let _sep = nd::bool(); // keeps counterexample traces distinct from witness traces (playback dedupe)
    assert!((Bit::from(t) == Bit::One) == t && (Bit::from(t) == Bit::Zero) == !t, "C11: Bit::from(bool) is not One for true and Zero for false");
    assert!(bool::from(Bit::One) && !bool::from(Bit::Zero), "C11: bool::from(Bit) is not true / false");
    assert!(bool::from(Bit::from(t)) == t, "C11: bool -> Bit -> bool does not round-trip");
    let c = nd::bit();
    assert!(Bit::from(bool::from(c)) == c, "C11: Bit -> bool -> Bit does not round-trip");
});

// ---- slices of elements *narrower* than the storage word that overshoot the capacity by less
// than one word (3 half-word elements into a one-word vector): must be NotEnoughCapacity
h_slice_to_bvf!(c11_q_slice_u8_to_f16x1, 6, Bvf<u16, 1>, u8);
h_slice_to_bvf!(c11_q_slice_u16_to_f32x1, 6, Bvf<u32, 1>, u16);
h_slice_to_bvf!(c11_q_slice_u32_to_f64x1, 6, Bvf<u64, 1>, u32);
h_slice_to_bvf!(c11_q_slice_u64_to_f128x1, 6, Bvf<u128, 1>, u64);
h_slice_to_bvf!(c11_q_slice_u8_to_f32x1, 6, Bvf<u32, 1>, u8);
