//! C11 harnesses (not written yet).
