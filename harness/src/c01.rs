//! C01 harnesses (not written yet).
