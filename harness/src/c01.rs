//! C01 — add, subtract and multiply wrap modulo 2^len for every operand pairing.
//!
//! Oracle: raw storage of the result == (val(a) op val(b)) mod 2^len(a), length unchanged,
//! right operand untouched. Because the comparison is on *all* storage bits, garbage written
//! beyond len (padding or spare words) is a failure even though get() cannot see it.
use crate::big::{m128, Big};
use crate::nd;
use crate::scopes::*;
use bva::{Bit, BitVector, Bv, Bvd, Bvf};

macro_rules! addsub_witnesses {
    ($ra:ident, $rb:ident) => {
        w!($rb.len > $ra.len && !$rb.v.fits($ra.len), "rhs longer than lhs with a set bit at index >= len(lhs)");
        w!($ra.len == 0, "empty lhs");
        w!($rb.len == 0 || $rb.v.is_zero(), "empty or zero rhs");
    };
}

/// `Bvf` left operand: `+` and `-` (symbolic choice), `&a op &b` and `a op= &b`.
macro_rules! h_addsub_all {
    ($name:ident, $unw:literal, $a:expr, $b:expr) => {
        harness!($name, $unw, {
            let (a, ra) = $a;
            let (b, rb) = $b;
            let n = ra.len;
            addsub_witnesses!(ra, rb);
            let sub = nd::bool();
            let mut a2 = a.clone();
            let (r, want) = if sub {
                a2 -= &b;
                (&a - &b, ra.v.sub(rb.v).trunc(n))
            } else {
                a2 += &b;
                (&a + &b, ra.v.add(rb.v).trunc(n))
            };
            w!(!sub && n > 8 && want.is_zero() && !ra.v.is_zero() && rb.v.trunc(n) == Big::ONE,
               "a + 1 wraps to zero: the carry ripples through every word");
            w!(sub && n > 8 && ra.v.is_zero() && rb.v.trunc(n) == Big::ONE,
               "0 - 1: the borrow ripples through every word");
            let rr = r.into_raw();
            let r2 = a2.into_raw();
            assert!(rr.len == n, "C01: result length differs from lhs length");
            assert!(rr.v == want, "C01: result storage != (a +/- b) mod 2^len(a)");
            assert!(r2.len == n && r2.v == want, "C01: op-assign storage != (a +/- b) mod 2^len(a)");
            assert!(a.into_raw() == ra, "C01: lhs of &a op &b modified");
            assert!(b.into_raw() == rb, "C01: rhs modified");
        });
    };
}

/// Heap-backed left operand: one operator, assign form.
macro_rules! h_addsub_assign {
    ($name:ident, $unw:literal, $a:expr, $b:expr, $op:tt, $model:ident) => {
        harness!($name, $unw, {
            let (mut a, ra) = $a;
            let (b, rb) = $b;
            let n = ra.len;
            addsub_witnesses!(ra, rb);
            w!((ra.cap >= n + 64 && n > 0) || ra.cap <= 64, "lhs has a spare storage word (or is a one-word vector)");
            let want = ra.v.$model(rb.v).trunc(n);
            w!(ra.cap <= 64 || (n > 64 && (want.is_zero() || want == Big::mask(n)) && rb.v.trunc(n) == Big::ONE),
               "carry/borrow of +/- 1 ripples through every word");
            a $op &b;
            let r = a.into_raw();
            assert!(r.len == n, "C01: result length differs from lhs length");
            assert!(r.v == want, "C01: op-assign storage != (a +/- b) mod 2^len(a)");
            assert!(r.len <= r.cap, "C01: len > capacity");
            assert!(b.into_raw() == rb, "C01: rhs modified");
        });
    };
}

/// Heap-backed left operand: by-reference form (clones the lhs).
macro_rules! h_addsub_ref {
    ($name:ident, $unw:literal, $a:expr, $b:expr, $op:tt, $model:ident) => {
        harness!($name, $unw, {
            let (a, ra) = $a;
            let (b, rb) = $b;
            let n = ra.len;
            addsub_witnesses!(ra, rb);
            let r = ((&a) $op (&b)).into_raw();
            assert!(r.len == n, "C01: result length differs from lhs length");
            assert!(r.v == ra.v.$model(rb.v).trunc(n), "C01: result storage != (a +/- b) mod 2^len(a)");
            assert!(r.len <= r.cap, "C01: len > capacity");
            assert!(a.into_raw() == ra, "C01: lhs of &a op &b modified");
            assert!(b.into_raw() == rb, "C01: rhs modified");
        });
    };
}

// ---- Bvf + / - ---------------------------------------------------------------------------
h_addsub_all!(c01_q_addsub_f8x2_f8x1, 4, f8x2(anylen(16)), f8x1(anylen(8)));
h_addsub_all!(c01_q_addsub_f8x2_f8x2, 4, f8x2(anylen(16)), f8x2(anylen(16)));
h_addsub_all!(c01_q_addsub_f8x2_f8x3, 4, f8x2(anylen(16)), f8x3(anylen(24)));
h_addsub_all!(c01_q_addsub_f8x3_f8x2_pb, 5, f8x3(anylen(24)), f8x2(anylen(16)));
h_addsub_all!(c01_q_addsub_f8x3_f8x3, 5, f8x3(anylen(24)), f8x3(anylen(24)));
h_addsub_all!(c01_q_addsub_f8x2_f16x1, 4, f8x2(anylen(16)), f16x1(anylen(16)));
h_addsub_all!(c01_q_addsub_f8x2_f16x2, 4, f8x2(anylen(16)), f16x2(anylen(32)));
h_addsub_all!(c01_q_addsub_f16x2_f8x3, 4, f16x2(anylen(32)), f8x3(anylen(24)));
h_addsub_all!(c01_q_addsub_f16x2_f16x2, 4, f16x2(anylen(32)), f16x2(anylen(32)));
h_addsub_all!(c01_q_addsub_f32x2_f32x2, 4, f32x2(anylen(64)), f32x2(anylen(64)));
h_addsub_all!(c01_q_addsub_fuszx2_fuszx2, 4, fuszx2(anylen(128)), fuszx2(anylen(128)));
h_addsub_all!(c01_q_addsub_f128x2_f128x2, 4, f128x2(anylen(256)), f128x2(anylen(256)));
h_addsub_all!(c01_q_addsub_f64x2_f64x2_pb, 4, f64x2(anylen(128)), f64x2(anylen(128)));
h_addsub_all!(c01_q_addsub_f64x2_f64x3, 4, f64x2(anylen(128)), f64x3(anylen(192)));
h_addsub_all!(c01_q_addsub_f64x3_f64x2, 5, f64x3(anylen(192)), f64x2(anylen(128)));
h_addsub_all!(c01_q_addsub_f64x2_f8x3, 9, f64x2(anylen(128)), f8x3(anylen(24)));
h_addsub_all!(c01_t_addsub_f64x3_f128x2, 5, f64x3(anylen(192)), f128x2(anylen(256)));
h_addsub_all!(c01_t_addsub_f128x2_f64x3, 4, f128x2(anylen(256)), f64x3(anylen(192)));
h_addsub_all!(c01_t_addsub_f32x2_f16x2, 4, f32x2(anylen(64)), f16x2(anylen(32)));
h_addsub_all!(c01_q_addsub_f8x2_bvd1, 4, f8x2(anylen(16)), bvd1(anylen(64)));
h_addsub_all!(c01_q_addsub_f64x2_bvd3, 4, f64x2(anylen(128)), bvd3(anylen(192)));
h_addsub_all!(c01_q_addsub_f8x2_bvfix, 4, f8x2(anylen(16)), bvfix(anylen(128)));
h_addsub_all!(c01_q_addsub_f64x2_bvdyn3, 4, f64x2(anylen(128)), bvdyn3(anylen(192)));
h_addsub_all!(c01_q_addsub_f8x2_u8, 4, f8x2(anylen(16)), iu8());
h_addsub_all!(c01_q_addsub_f8x2_u16, 4, f8x2(anylen(16)), iu16());
h_addsub_all!(c01_q_addsub_f8x2_u32, 4, f8x2(anylen(16)), iu32());
h_addsub_all!(c01_q_addsub_f8x2_u64, 4, f8x2(anylen(16)), iu64());
h_addsub_all!(c01_q_addsub_f8x2_u128, 4, f8x2(anylen(16)), iu128());
h_addsub_all!(c01_q_addsub_f8x2_usize, 4, f8x2(anylen(16)), iusize());
h_addsub_all!(c01_q_addsub_f64x2_u128, 4, f64x2(anylen(128)), iu128());
h_addsub_all!(c01_t_addsub_f16x2_u64, 4, f16x2(anylen(32)), iu64());
h_addsub_all!(c01_t_addsub_f8x3_u128, 5, f8x3(anylen(24)), iu128());

// ---- Bvd + / - (2 allocated words: a spare word whenever len <= 64) ------------------------
h_addsub_assign!(c01_q_add_bvd2_bvd3, 4, bvd2(anylen(128)), bvd3(anylen(192)), +=, add);
h_addsub_assign!(c01_q_sub_bvd2_bvd3, 4, bvd2(anylen(128)), bvd3(anylen(192)), -=, sub);
h_addsub_assign!(c01_q_add_bvd2_f64x3, 4, bvd2(anylen(128)), f64x3(anylen(192)), +=, add);
h_addsub_assign!(c01_q_sub_bvd2_f64x3, 4, bvd2(anylen(128)), f64x3(anylen(192)), -=, sub);
h_addsub_assign!(c01_q_add_bvd2_f8x3, 9, bvd2(anylen(128)), f8x3(anylen(24)), +=, add);
h_addsub_assign!(c01_q_sub_bvd2_f8x3, 9, bvd2(anylen(128)), f8x3(anylen(24)), -=, sub);
h_addsub_assign!(c01_q_add_bvd2_f16x2, 5, bvd2(anylen(128)), f16x2(anylen(32)), +=, add);
h_addsub_assign!(c01_q_add_bvd2_u128, 4, bvd2(anylen(128)), iu128(), +=, add);
h_addsub_assign!(c01_q_sub_bvd2_u64, 4, bvd2(anylen(128)), iu64(), -=, sub);
h_addsub_assign!(c01_q_sub_bvd2_u8, 9, bvd2(anylen(128)), iu8(), -=, sub);
h_addsub_assign!(c01_t_add_bvd3_bvd2, 5, bvd3(anylen(192)), bvd2(anylen(128)), +=, add);
h_addsub_assign!(c01_q_sub_bvd3_bvd2, 5, bvd3(anylen(192)), bvd2(anylen(128)), -=, sub);
h_addsub_assign!(c01_q_add_bvd3_bvd3, 5, bvd3(anylen(192)), bvd3(anylen(192)), +=, add);
h_addsub_assign!(c01_t_sub_bvd3_f64x3, 5, bvd3(anylen(192)), f64x3(anylen(192)), -=, sub);
h_addsub_assign!(c01_t_add_bvd3_f128x2, 5, bvd3(anylen(192)), f128x2(anylen(256)), +=, add);
h_addsub_assign!(c01_t_sub_bvd1_bvd2, 4, bvd1(anylen(64)), bvd2(anylen(128)), -=, sub);
h_addsub_assign!(c01_t_add_bvd1_u16, 5, bvd1(anylen(64)), iu16(), +=, add);
h_addsub_assign!(c01_t_sub_bvd1_u32, 4, bvd1(anylen(64)), iu32(), -=, sub);
h_addsub_assign!(c01_t_add_bvd1_usize, 4, bvd1(anylen(64)), iusize(), +=, add);
h_addsub_ref!(c01_q_refadd_bvd2_bvd3, 4, bvd2(anylen(128)), bvd3(anylen(192)), +, add);
h_addsub_ref!(c01_t_refsub_bvd2_f64x3, 4, bvd2(anylen(128)), f64x3(anylen(192)), -, sub);
h_addsub_ref!(c01_t_refsub_bvd2_u128, 4, bvd2(anylen(128)), iu128(), -, sub);

// ---- Bv + / -, each storage mode ----------------------------------------------------------
h_addsub_assign!(c01_q_add_bvfix_bvdyn3, 4, bvfix(anylen(128)), bvdyn3(anylen(192)), +=, add);
h_addsub_assign!(c01_q_sub_bvfix_bvfix, 4, bvfix(anylen(128)), bvfix(anylen(128)), -=, sub);
h_addsub_assign!(c01_q_add_bvfix_f64x3, 4, bvfix(anylen(128)), f64x3(anylen(192)), +=, add);
h_addsub_assign!(c01_q_sub_bvfix_bvd3, 4, bvfix(anylen(128)), bvd3(anylen(192)), -=, sub);
h_addsub_assign!(c01_q_add_bvdyn2_bvdyn3, 4, bvdyn2(anylen(128)), bvdyn3(anylen(192)), +=, add);
h_addsub_assign!(c01_q_sub_bvdyn2_bvfix, 4, bvdyn2(anylen(128)), bvfix(anylen(128)), -=, sub);
h_addsub_assign!(c01_q_sub_bvdyn2_f64x3, 4, bvdyn2(anylen(128)), f64x3(anylen(192)), -=, sub);
h_addsub_assign!(c01_t_add_bvdyn2_bvd3, 4, bvdyn2(anylen(128)), bvd3(anylen(192)), +=, add);
h_addsub_assign!(c01_t_add_bvdyn2_f8x3, 9, bvdyn2(anylen(128)), f8x3(anylen(24)), +=, add);
h_addsub_assign!(c01_q_add_bvfix_u128, 4, bvfix(anylen(128)), iu128(), +=, add);
h_addsub_assign!(c01_q_sub_bvdyn2_u128, 4, bvdyn2(anylen(128)), iu128(), -=, sub);
h_addsub_ref!(c01_t_refadd_bvfix_bvdyn3, 4, bvfix(anylen(128)), bvdyn3(anylen(192)), +, add);
h_addsub_ref!(c01_t_refsub_bvdyn2_bvdyn3, 4, bvdyn2(anylen(128)), bvdyn3(anylen(192)), -, sub);

// =========================================================================================
// Multiplication
// =========================================================================================

/// 8-bit subject: compare with the native `u8` product, all values, all lengths.
macro_rules! h_mul8 {
    ($name:ident, $unw:literal, $b:expr) => {
        harness!($name, $unw, {
            let (a, ra) = f8x1(anylen(8));
            let (b, rb) = $b;
            let n = ra.len;
            let m = m128(n) as u8;
            let want = (ra.v.lo as u8).wrapping_mul(rb.v.lo as u8) & m;
            w!(n == 8 && (ra.v.lo as u16) * ((rb.v.lo as u8) as u16) > 255, "product overflows 8 bits");
            w!(n > 0 && n < 8 && want != 0, "partial word, non-zero product");
            w!(n == 0, "empty lhs");
            let r = (&a * &b).into_raw();
            assert!(r.len == n, "C01: product length differs from lhs length");
            assert!(r.v == Big::lo(want as u128), "C01: product storage != (a * b) mod 2^len(a)");
            let mut a2 = a;
            a2 *= &b;
            assert!(a2.into_raw() == r, "C01: *= differs from *");
            assert!(b.into_raw() == rb, "C01: rhs modified");
        });
    };
}

h_mul8!(c01_q_mul_f8x1_f8x1, 3, f8x1(anylen(8)));
h_mul8!(c01_q_mul_f8x1_f8x2, 3, f8x2(anylen(16)));
h_mul8!(c01_q_mul_f8x1_f16x1, 3, f16x1(anylen(16)));
h_mul8!(c01_q_mul_f8x1_bvd1, 3, bvd1(anylen(64)));
h_mul8!(c01_q_mul_f8x1_bvfix, 3, bvfix(anylen(128)));
h_mul8!(c01_q_mul_f8x1_u8, 3, iu8());
h_mul8!(c01_q_mul_f8x1_u16, 3, iu16());
h_mul8!(c01_q_mul_f8x1_u32, 3, iu32());
h_mul8!(c01_q_mul_f8x1_u64, 3, iu64());
h_mul8!(c01_q_mul_f8x1_u128, 3, iu128());
h_mul8!(c01_q_mul_f8x1_usize, 3, iusize());

/// Limb-level reference model of the low three bytes of a product (schoolbook on bytes with
/// native widening multiplication), loop-free.
#[inline(always)]
fn mulref24(a: u32, b: u32) -> u32 {
    let (a0, a1, a2) = (a & 0xff, (a >> 8) & 0xff, (a >> 16) & 0xff);
    let (b0, b1, b2) = (b & 0xff, (b >> 8) & 0xff, (b >> 16) & 0xff);
    let c0 = a0 * b0;
    let c1 = a0 * b1 + a1 * b0;
    let c2 = a0 * b2 + a1 * b1 + a2 * b0;
    (c0.wrapping_add(c1 << 8).wrapping_add(c2 << 16)) & 0x00ff_ffff
}

// The reference model equals native multiplication: validated natively (unit test
// `mulref24_is_native_mul`, two million random and all boundary operand pairs, run by
// `./check setup`). A Kani harness for this multiplier-equivalence did not finish in 40 minutes
// even at 16 x 16 bits, so it is not part of any tier.

/// Multi-byte subjects against the limb-level reference model.
macro_rules! h_mul_limb {
    ($name:ident, $unw:literal, $a:expr, $b:expr) => {
        harness!($name, $unw, {
            let (a, ra) = $a;
            let (b, rb) = $b;
            let n = ra.len;
            let want = mulref24(ra.v.lo as u32, rb.v.lo as u32) & (m128(n) as u32);
            w!(n >= 16 && (ra.v.lo >> 8) != 0 && ((rb.v.lo >> 8) & 0xff) != 0, "both factors have a non-zero second byte");
            w!(n % 8 != 0 && want >> 8 != 0, "partial top word, product spills into it");
            w!(rb.len > n && !rb.v.fits(n), "rhs longer than lhs with a set bit at index >= len(lhs)");
            let r = (&a * &b).into_raw();
            assert!(r.len == n, "C01: product length differs from lhs length");
            assert!(r.v == Big::lo(want as u128), "C01: product storage != (a * b) mod 2^len(a)");
            assert!(b.into_raw() == rb, "C01: rhs modified");
        });
    };
}

h_mul_limb!(c01_q_mul_f8x2_f8x2, 4, f8x2(anylen(16)), f8x2(anylen(16)));
h_mul_limb!(c01_q_mul_f8x2_f8x3, 4, f8x2(anylen(16)), f8x3(anylen(24)));
h_mul_limb!(c01_q_mul_f8x2_f16x1, 4, f8x2(anylen(16)), f16x1(anylen(16)));
h_mul_limb!(c01_t_mul_f8x3_f8x3, 5, f8x3(anylen(24)), f8x3(anylen(24)));
h_mul_limb!(c01_t_mul_f8x2_bvd1, 4, f8x2(anylen(16)), bvd1(anylen(64)));
h_mul_limb!(c01_t_mul_f8x2_u32, 4, f8x2(anylen(16)), iu32());

/// Vectors over 64-bit words with few *structurally* symbolic bits, so that the bit-blasted
/// 64x64 multipliers collapse to a handful of shifted additions (a full-width symbolic
/// 64-bit multiplication does not finish: measured > 15 min for one harness).
/// `small`: value below 2^8. `sparse`: symbolic bytes at bits 0..8, 56..64 (just below the
/// word boundary) and 64..72 (just above it); everything else constant zero.
/// `sparsetop` (for *concrete* lengths only): additionally a symbolic byte just below `len`,
/// so that products do wrap modulo 2^len.
#[inline(always)]
fn small_w(_len: usize) -> (u64, u64) {
    (nd::u8() as u64, 0)
}
#[inline(always)]
fn sparse_w(_len: usize) -> (u64, u64) {
    ((nd::u8() as u64) | (nd::u8() as u64) << 56, nd::u8() as u64)
}
#[inline(always)]
fn sparsetop_w(len: usize) -> (u64, u64) {
    let (w0, w1) = sparse_w(len);
    let t = if len >= 8 { (nd::u8() as u128) << (len - 8) } else { 0 };
    (w0 | t as u64, w1 | (t >> 64) as u64)
}
macro_rules! gen_few {
    ($f64x2:ident, $bvd2:ident, $bvfix:ident, $bvdyn2:ident, $w:ident) => {
        #[inline(always)]
        fn $f64x2(len: usize) -> (Bvf<u64, 2>, RawV) {
            nd::assume(len <= 128);
            let (x0, x1) = $w(len);
            let w0 = x0 & crate::big::m64(len);
            let w1 = x1 & crate::big::m64(if len > 64 { len - 64 } else { 0 });
            (Bvf::new([w0, w1], len), RawV { len, v: Big::limbs(w0, w1, 0, 0), cap: 128 })
        }
        #[inline(always)]
        fn $bvd2(len: usize) -> (Bvd, RawV) {
            nd::assume(len <= 128);
            let (x0, x1) = $w(len);
            let w0 = x0 & crate::big::m64(len);
            let w1 = x1 & crate::big::m64(if len > 64 { len - 64 } else { 0 });
            (
                Bvd::new(Box::new([w0, w1]) as Box<[u64]>, len),
                RawV { len, v: Big::limbs(w0, w1, 0, 0), cap: 128 },
            )
        }
        #[inline(always)]
        fn $bvfix(len: usize) -> (Bv, RawV) {
            let (b, r) = $f64x2(len);
            (Bv::Fixed(b), r)
        }
        #[inline(always)]
        fn $bvdyn2(len: usize) -> (Bv, RawV) {
            let (b, r) = $bvd2(len);
            (Bv::Dynamic(b), r)
        }
    };
}
#[inline(always)]
fn sparse_bvd1(len: usize) -> (Bvd, RawV) {
    nd::assume(len <= 64);
    let w0 = ((nd::u8() as u64) | (nd::u8() as u64) << 56) & crate::big::m64(len);
    (Bvd::new(Box::new([w0]) as Box<[u64]>, len), RawV { len, v: Big::lo(w0 as u128), cap: 64 })
}
gen_few!(small_f64x2, small_bvd2, small_bvfix, small_bvdyn2, small_w);
gen_few!(sparse_f64x2, sparse_bvd2, sparse_bvfix, sparse_bvdyn2, sparse_w);
gen_few!(sparsetop_f64x2, sparsetop_bvd2, sparsetop_bvfix, sparsetop_bvdyn2, sparsetop_w);

/// 64-bit-word subjects with one factor below 2^8: exercises the carry propagation between
/// limbs and the final mask (the 64x64 partial products themselves are the business of the
/// word-primitive obligations). len <= 128 so the oracle is a native u128 product.
macro_rules! h_mul_small {
    ($name:ident, $unw:literal, $a:expr, $b:expr) => {
        harness!($name, $unw, {
            let (a, ra) = $a;
            let (b, rb) = $b;
            let n = ra.len;
            nd::assume(n <= 128);
            let want = ra.v.lo.wrapping_mul(rb.v.lo) & m128(n);
            w!(n <= 64 || (want >> 64 != 0 && (ra.v.lo >> 64 == 0 || rb.v.lo >> 64 == 0)), "single word, or the product carries from the low word into the high word");
            w!(n > 0 && ra.v.lo.checked_mul(rb.v.lo).map_or(true, |p| p > m128(n)), "product wraps modulo 2^len");
            let r = (&a * &b).into_raw();
            assert!(r.len == n, "C01: product length differs from lhs length");
            assert!(r.v == Big::lo(want), "C01: product storage != (a * b) mod 2^len(a)");
            assert!(b.into_raw() == rb, "C01: rhs modified");
        });
    };
}

// Symbolic length with 64-bit words costs 5-7 minutes per harness: thorough tier. The quick
// tier uses concrete lengths around the word boundary (contents symbolic).
h_mul_small!(c01_t_mul_f64x2_smallrhs, 4, sparse_f64x2(anylen(128)), small_f64x2(anylen(128)));
h_mul_small!(c01_t_mul_f64x2_smalllhs, 4, small_f64x2(anylen(128)), sparse_f64x2(anylen(128)));
h_mul_small!(c01_t_mul_f64x2_u8, 4, sparse_f64x2(anylen(128)), iu8());
h_mul_small!(c01_t_mul_bvfix_smallrhs, 4, sparse_bvfix(anylen(128)), small_bvfix(anylen(128)));
h_mul_small!(c01_t_mul_f64x2_bvd2_smallrhs, 4, sparse_f64x2(anylen(128)), small_bvd2(anylen(128)));
h_mul_small!(c01_q_mul_f64x2_l128_smallrhs, 4, sparsetop_f64x2(128), small_f64x2(anylen(128)));
h_mul_small!(c01_q_mul_f64x2_l65_smallrhs, 4, sparsetop_f64x2(65), small_f64x2(anylen(128)));
h_mul_small!(c01_q_mul_f64x2_l70_smalllhs, 4, small_f64x2(70), sparse_f64x2(anylen(128)));
h_mul_small!(c01_q_mul_f64x2_l127_u8, 4, sparsetop_f64x2(127), iu8());
h_mul_small!(c01_q_mul_bvfix_l128_bvdyn2, 4, sparsetop_bvfix(128), small_bvdyn2(anylen(128)));
// Bvd multiplication allocates the result by length: concrete lengths only (a symbolic length
// ran CBMC out of memory: stated as outside the claim).
h_mul_small!(c01_q_mul_bvd2_l128_smallrhs, 4, sparsetop_bvd2(128), small_bvd2(anylen(128)));
h_mul_small!(c01_q_mul_bvd2_l65_smalllhs, 4, small_bvd2(65), sparse_bvd2(anylen(128)));
h_mul_small!(c01_q_mul_bvd2_l64_f64x2, 4, sparsetop_bvd2(64), small_f64x2(anylen(128)));
h_mul_small!(c01_q_mul_bvd2_l100_u8, 9, sparsetop_bvd2(100), iu8());
h_mul_small!(c01_q_mul_bvdyn2_l127_smallrhs, 4, sparsetop_bvdyn2(127), small_bvdyn2(anylen(128)));
h_mul_small!(c01_t_mul_bvd2_l1_smallrhs, 4, sparsetop_bvd2(1), small_bvd2(anylen(128)));
h_mul_small!(c01_t_mul_bvd2_l63_smallrhs, 4, sparsetop_bvd2(63), small_bvd2(anylen(128)));
h_mul_small!(c01_t_mul_bvd2_l66_bvfix, 4, sparsetop_bvd2(66), small_bvfix(anylen(128)));
h_mul_small!(c01_t_mul_bvd1_l64_smallrhs, 3, sparse_bvd1(64), small_bvd2(anylen(128)));
// Bvd x Bvf / inline Bv at lengths that are not a multiple of 64 (separate code path from
// Bvd x Bvd: `Mul<&Bvf> for &Bvd`), product wrapping into the masked top word.
h_mul_small!(c01_q_mul_bvd2_l100_f64x2, 4, sparsetop_bvd2(100), small_f64x2(anylen(128)));
h_mul_small!(c01_q_mul_bvd2_l70_bvfix, 4, sparsetop_bvd2(70), small_bvfix(anylen(128)));
h_mul_small!(c01_t_mul_bvdyn2_l127_f64x2, 4, sparsetop_bvdyn2(127), small_f64x2(anylen(128)));

#[cfg(test)]
mod tests {
    use super::mulref24;
    #[test]
    fn mulref24_is_native_mul() {
        let mut s = 0x2545F4914F6CDD1Du64;
        let mut r = || {
            s ^= s << 13;
            s ^= s >> 7;
            s ^= s << 17;
            (s >> 20) as u32 & 0x00ff_ffff
        };
        for _ in 0..2_000_000 {
            let (a, b) = (r(), r());
            assert_eq!(mulref24(a, b), a.wrapping_mul(b) & 0x00ff_ffff);
        }
        for a in [0u32, 1, 0xff, 0x100, 0xffff, 0x10000, 0xffffff, 0x800000, 0x7fffff] {
            for b in [0u32, 1, 0xff, 0x100, 0xffff, 0x10000, 0xffffff, 0x800000, 0x7fffff] {
                assert_eq!(mulref24(a, b), a.wrapping_mul(b) & 0x00ff_ffff);
            }
        }
    }
}
// same word size, subject at least two words longer than the operand (the tail loop that
// propagates the carry/borrow through the remaining words runs more than once)
h_addsub_all!(c01_q_addsub_f8x3_f8x1, 5, f8x3(anylen(24)), f8x1(anylen(8)));
h_addsub_all!(c01_q_addsub_f8x4_f8x1, 6, f8x4(anylen(32)), f8x1(anylen(8)));
h_addsub_all!(c01_q_addsub_f64x3_f64x1, 5, f64x3(anylen(192)), f64x1(anylen(64)));
h_addsub_all!(c01_t_addsub_f8x4_f8x2, 6, f8x4(anylen(32)), f8x2(anylen(16)));
