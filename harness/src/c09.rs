//! C09 — equality and ordering are numeric comparison of the unsigned values, across all
//! implementations, word types and lengths (the shorter operand zero-extended).
//!
//! Oracle: the generators return arbitrary `Inv` states together with their raw storage
//! `RawV { len, v }`; under `Inv` the unsigned value of the vector is `v`. For every pair
//! `(a, b)` each of `== != < <= > >= partial_cmp` (and `cmp` where `Ord` exists, i.e. same
//! type) must equal the comparison of the model values `val(a) ? val(b)`; every pairing is
//! checked in both operand orders, which exercises both members of each
//! delegating/reversing impl pair. Reflexivity, symmetry, transitivity, totality and the
//! mutual consistency of PartialEq/PartialOrd/Ord follow from agreeing with `<` on naturals;
//! the three-operand harnesses state them directly on the crate's operators as a cross-check.
//!
//! Cost notes (measured): the word re-chunking `get_int` (unsafe `align_to`, or an inner loop
//! of `size_of(J)/size_of(I)` steps) dominates, and the single unwind bound of a harness
//! applies to the outer word loop too. `Bvd ? Bvf` iterates `max(len(bvd) in BITS, words)`
//! times, so its cost grows with the Bvd's bit length. Cheap pairings (same word type,
//! Bvd x Bvd) decide all operators in one harness; expensive ones get one operator per harness.
use crate::big::Big;
use crate::nd;
use crate::scopes::*;
use bva::{Bit, BitVector, Bv, Bvd, Bvf};
use std::cmp::Ordering;

#[inline(always)]
fn m_eq(o: Ordering) -> bool {
    o == Ordering::Equal
}
#[inline(always)]
fn m_ne(o: Ordering) -> bool {
    o != Ordering::Equal
}
#[inline(always)]
fn m_lt(o: Ordering) -> bool {
    o == Ordering::Less
}
#[inline(always)]
fn m_le(o: Ordering) -> bool {
    o != Ordering::Greater
}
#[inline(always)]
fn m_gt(o: Ordering) -> bool {
    o == Ordering::Greater
}
#[inline(always)]
fn m_ge(o: Ordering) -> bool {
    o != Ordering::Less
}

/// `a ? b` for all seven operators against the model ordering `want` of (val(a), val(b)).
macro_rules! ops_fwd {
    ($a:ident, $b:ident, $want:expr) => {
        let want: Ordering = $want;
        assert!(($a == $b) == m_eq(want), "C09: a == b differs from val(a) == val(b)");
        assert!(($a != $b) == m_ne(want), "C09: a != b differs from val(a) != val(b)");
        assert!(($a < $b) == m_lt(want), "C09: a < b differs from val(a) < val(b)");
        assert!(($a <= $b) == m_le(want), "C09: a <= b differs from val(a) <= val(b)");
        assert!(($a > $b) == m_gt(want), "C09: a > b differs from val(a) > val(b)");
        assert!(($a >= $b) == m_ge(want), "C09: a >= b differs from val(a) >= val(b)");
        assert!($a.partial_cmp(&$b) == Some(want), "C09: a.partial_cmp(b) differs from the numeric ordering");
    };
}

/// The same with the operands swapped (the other impl of the pair).
macro_rules! ops_rev {
    ($b:ident, $a:ident, $want:expr) => {
        let want: Ordering = $want;
        assert!(($b == $a) == m_eq(want), "C09: b == a differs from val(b) == val(a)");
        assert!(($b != $a) == m_ne(want), "C09: b != a differs from val(b) != val(a)");
        assert!(($b < $a) == m_lt(want), "C09: b < a differs from val(b) < val(a)");
        assert!(($b <= $a) == m_le(want), "C09: b <= a differs from val(b) <= val(a)");
        assert!(($b > $a) == m_gt(want), "C09: b > a differs from val(b) > val(a)");
        assert!(($b >= $a) == m_ge(want), "C09: b >= a differs from val(b) >= val(a)");
        assert!($b.partial_cmp(&$a) == Some(want), "C09: b.partial_cmp(a) differs from the numeric ordering");
    };
}

/// Vacuity witnesses for symbolic lengths; `$k` is a number of bits (a word size of one
/// operand) such that at least one operand can be longer than `$k` bits.
macro_rules! wit_sym {
    ($ra:ident, $rb:ident, $want:ident, $k:literal) => {
        w!($ra.len != $rb.len && $want == Ordering::Equal && !$ra.v.is_zero(), "equal non-zero values of different lengths");
        w!($ra.len < $rb.len && $want == Ordering::Greater, "the shorter operand has the greater value");
        w!($ra.len == 0 || $rb.len == 0, "an empty operand");
        w!($want != Ordering::Equal && $ra.v.trunc($k) == $rb.v.trunc($k), "unequal values that agree in their low word(s) and differ only above");
        w!($ra.len >= $rb.len + $k || $rb.len >= $ra.len + $k, "lengths differ by at least a whole word");
        let _sep = nd::bool(); // keeps counterexample traces distinct from witness traces (playback dedupe)
    };
}

/// Vacuity witnesses for concrete length pairs (only the contents are symbolic).
macro_rules! wit_conc {
    ($ra:ident, $rb:ident, $want:ident, $k:literal) => {
        w!($want == Ordering::Equal && !$ra.v.is_zero(), "equal non-zero values");
        w!($want == Ordering::Less, "a below b");
        w!($want == Ordering::Greater, "a above b");
        w!($want != Ordering::Equal && $ra.v.trunc($k) == $rb.v.trunc($k), "unequal values differing only above the low word");
        let _sep = nd::bool(); // keeps counterexample traces distinct from witness traces (playback dedupe)
    };
}

/// Both operand orders, seven operators each (cheap pairings only).
macro_rules! h_cmp {
    ($name:ident, $unw:literal, $a:expr, $b:expr, $w:ident, $k:literal) => {
        harness!($name, $unw, {
            let (a, ra) = $a;
            let (b, rb) = $b;
            let want = ra.v.cmp(rb.v);
            $w!(ra, rb, want, $k);
            ops_fwd!(a, b, want);
            ops_rev!(b, a, want.reverse());
        });
    };
}

/// One operand order, seven operators.
macro_rules! h_cmp1 {
    ($name:ident, $unw:literal, $a:expr, $b:expr, $w:ident, $k:literal) => {
        harness!($name, $unw, {
            let (a, ra) = $a;
            let (b, rb) = $b;
            let want = ra.v.cmp(rb.v);
            $w!(ra, rb, want, $k);
            ops_fwd!(a, b, want);
        });
    };
}

/// Same type, both operand orders (the two scopes differ), plus `Ord::cmp` both ways.
macro_rules! h_cmp_ord2 {
    ($name:ident, $unw:literal, $a:expr, $b:expr, $w:ident, $k:literal) => {
        harness!($name, $unw, {
            let (a, ra) = $a;
            let (b, rb) = $b;
            let want = ra.v.cmp(rb.v);
            $w!(ra, rb, want, $k);
            ops_fwd!(a, b, want);
            ops_rev!(b, a, want.reverse());
            assert!(a.cmp(&b) == want, "C09: a.cmp(b) differs from the numeric ordering");
            assert!(b.cmp(&a) == want.reverse(), "C09: b.cmp(a) differs from the numeric ordering");
        });
    };
}

/// One operator, one operand order.
macro_rules! h_op {
    ($name:ident, $unw:literal, $a:expr, $b:expr, $w:ident, $k:literal, $op:tt, $m:ident) => {
        harness!($name, $unw, {
            let (a, ra) = $a;
            let (b, rb) = $b;
            let want = ra.v.cmp(rb.v);
            $w!(ra, rb, want, $k);
            assert!((a $op b) == $m(want), "C09: operator result differs from the numeric comparison of the values");
        });
    };
}

/// `partial_cmp`, one operand order.
macro_rules! h_pc {
    ($name:ident, $unw:literal, $a:expr, $b:expr, $w:ident, $k:literal) => {
        harness!($name, $unw, {
            let (a, ra) = $a;
            let (b, rb) = $b;
            let want = ra.v.cmp(rb.v);
            $w!(ra, rb, want, $k);
            assert!(a.partial_cmp(&b) == Some(want), "C09: a.partial_cmp(b) differs from the numeric ordering");
        });
    };
}

/// The seven operators of one pairing in one operand order, one harness each.
macro_rules! h_ops7 {
    ([$eq:ident, $ne:ident, $lt:ident, $le:ident, $gt:ident, $ge:ident, $pc:ident], $unw:literal, $a:expr, $b:expr, $w:ident, $k:literal) => {
        h_op!($eq, $unw, $a, $b, $w, $k, ==, m_eq);
        h_op!($ne, $unw, $a, $b, $w, $k, !=, m_ne);
        h_op!($lt, $unw, $a, $b, $w, $k, <, m_lt);
        h_op!($le, $unw, $a, $b, $w, $k, <=, m_le);
        h_op!($gt, $unw, $a, $b, $w, $k, >, m_gt);
        h_op!($ge, $unw, $a, $b, $w, $k, >=, m_ge);
        h_pc!($pc, $unw, $a, $b, $w, $k);
    };
}

/// Three operands, possibly of three different types: the order axioms stated on the
/// crate's own operators (no model values involved in the assertions).
macro_rules! h_order3 {
    ($name:ident, $unw:literal, $a:expr, $b:expr, $c:expr) => {
        harness!($name, $unw, {
            let (a, ra) = $a;
            let (b, rb) = $b;
            let (c, rc) = $c;
            w!(ra.v.cmp(rb.v) == Ordering::Less && rb.v.cmp(rc.v) == Ordering::Less && ra.len > rb.len && rb.len > rc.len, "strictly increasing chain with decreasing lengths");
            w!(ra.v == rb.v && rb.v == rc.v && ra.len != rb.len && rb.len != rc.len && !ra.v.is_zero(), "three equal non-zero values of different lengths");
            w!(ra.v.cmp(rb.v) == Ordering::Greater && rb.v.cmp(rc.v) == Ordering::Less, "no chain a <= b <= c");
            let _sep = nd::bool(); // keeps counterexample traces distinct from witness traces (playback dedupe)
            let le_ab = a <= b;
            let le_bc = b <= c;
            let le_ac = a <= c;
            let le_ba = b <= a;
            let eq_ab = a == b;
            let eq_ba = b == a;
            let eq_bc = b == c;
            let eq_ac = a == c;
            let lt_ab = a < b;
            let gt_ba = b > a;
            assert!(!(le_ab && le_bc) || le_ac, "C09: <= is not transitive");
            assert!(le_ab || le_ba, "C09: <= is not total");
            assert!((le_ab && le_ba) == eq_ab, "C09: a <= b && b <= a differs from a == b");
            assert!(eq_ab == eq_ba, "C09: == is not symmetric");
            assert!(!(eq_ab && eq_bc) || eq_ac, "C09: == is not transitive");
            assert!(lt_ab == gt_ba, "C09: a < b differs from b > a");
            assert!(lt_ab == (le_ab && !eq_ab), "C09: < differs from <= and !=");
            assert!(a.partial_cmp(&b).map(|o| o.reverse()) == b.partial_cmp(&a), "C09: partial_cmp is not antisymmetric");
            assert!(c == c && c <= c, "C09: not reflexive");
        });
    };
}

/// Same type, symmetric scopes: `== != partial_cmp cmp` (the implemented methods).
macro_rules! h_eqpc {
    ($name:ident, $unw:literal, $a:expr, $b:expr, $w:ident, $k:literal) => {
        harness!($name, $unw, {
            let (a, ra) = $a;
            let (b, rb) = $b;
            let want = ra.v.cmp(rb.v);
            $w!(ra, rb, want, $k);
            assert!((a == b) == m_eq(want), "C09: a == b differs from val(a) == val(b)");
            assert!((a != b) == m_ne(want), "C09: a != b differs from val(a) != val(b)");
            assert!(a.partial_cmp(&b) == Some(want), "C09: a.partial_cmp(b) differs from the numeric ordering");
            assert!(a.cmp(&b) == want, "C09: a.cmp(b) differs from the numeric ordering");
        });
    };
}

/// `== != partial_cmp` for operands of different types (no `Ord`).
macro_rules! h_eqpc1 {
    ($name:ident, $unw:literal, $a:expr, $b:expr, $w:ident, $k:literal) => {
        harness!($name, $unw, {
            let (a, ra) = $a;
            let (b, rb) = $b;
            let want = ra.v.cmp(rb.v);
            $w!(ra, rb, want, $k);
            assert!((a == b) == m_eq(want), "C09: a == b differs from val(a) == val(b)");
            assert!((a != b) == m_ne(want), "C09: a != b differs from val(a) != val(b)");
            assert!(a.partial_cmp(&b) == Some(want), "C09: a.partial_cmp(b) differs from the numeric ordering");
        });
    };
}

/// `< <= > >=`, one operand order.
macro_rules! h_rel {
    ($name:ident, $unw:literal, $a:expr, $b:expr, $w:ident, $k:literal) => {
        harness!($name, $unw, {
            let (a, ra) = $a;
            let (b, rb) = $b;
            let want = ra.v.cmp(rb.v);
            $w!(ra, rb, want, $k);
            assert!((a < b) == m_lt(want), "C09: a < b differs from val(a) < val(b)");
            assert!((a <= b) == m_le(want), "C09: a <= b differs from val(a) <= val(b)");
            assert!((a > b) == m_gt(want), "C09: a > b differs from val(a) > val(b)");
            assert!((a >= b) == m_ge(want), "C09: a >= b differs from val(a) >= val(b)");
        });
    };
}

// ---- Bvf x Bvf, same type (PartialEq, PartialOrd, Ord); symmetric scopes ---------------------
h_eqpc!(c09_q_eqpc_f8x2_f8x2, 4, f8x2(anylen(16)), f8x2(anylen(16)), wit_sym, 8);
h_rel!(c09_q_rel_f8x2_f8x2, 4, f8x2(anylen(16)), f8x2(anylen(16)), wit_sym, 8);
h_eqpc!(c09_q_eqpc_f8x3_f8x3, 5, f8x3(anylen(24)), f8x3(anylen(24)), wit_sym, 8);
h_rel!(c09_q_rel_f8x3_f8x3, 5, f8x3(anylen(24)), f8x3(anylen(24)), wit_sym, 8);
h_eqpc!(c09_q_eqpc_f16x2_f16x2, 4, f16x2(anylen(32)), f16x2(anylen(32)), wit_sym, 16);
h_rel!(c09_q_rel_f16x2_f16x2, 4, f16x2(anylen(32)), f16x2(anylen(32)), wit_sym, 16);
h_eqpc!(c09_q_eqpc_f64x2_f64x2, 4, f64x2(anylen(128)), f64x2(anylen(128)), wit_sym, 64);
h_rel!(c09_q_rel_f64x2_f64x2, 4, f64x2(anylen(128)), f64x2(anylen(128)), wit_sym, 64);
h_eqpc!(c09_t_eqpc_f32x2_f32x2, 4, f32x2(anylen(64)), f32x2(anylen(64)), wit_sym, 32);
h_rel!(c09_t_rel_f32x2_f32x2, 4, f32x2(anylen(64)), f32x2(anylen(64)), wit_sym, 32);
h_eqpc!(c09_t_eqpc_f64x3_f64x3, 5, f64x3(anylen(192)), f64x3(anylen(192)), wit_sym, 64);
h_rel!(c09_t_rel_f64x3_f64x3, 5, f64x3(anylen(192)), f64x3(anylen(192)), wit_sym, 64);
h_eqpc!(c09_t_eqpc_f128x2_f128x2, 4, f128x2(anylen(256)), f128x2(anylen(256)), wit_sym, 128);
h_rel!(c09_t_rel_f128x2_f128x2, 4, f128x2(anylen(256)), f128x2(anylen(256)), wit_sym, 128);
h_eqpc!(c09_t_eqpc_fuszx2_fuszx2, 4, fuszx2(anylen(128)), fuszx2(anylen(128)), wit_sym, 64);
h_rel!(c09_t_rel_fuszx2_fuszx2, 4, fuszx2(anylen(128)), fuszx2(anylen(128)), wit_sym, 64);
// same word type, different word count: both operand orders
h_cmp1!(c09_q_cmp_f8x2_f8x3, 5, f8x2(anylen(16)), f8x3(anylen(24)), wit_sym, 8);
h_cmp1!(c09_q_cmp_f8x3_f8x2, 5, f8x3(anylen(24)), f8x2(anylen(16)), wit_sym, 8);
h_eqpc1!(c09_t_eqpc_f64x2_f64x3, 5, f64x2(anylen(128)), f64x3(anylen(192)), wit_sym, 64);
h_rel!(c09_t_rel_f64x2_f64x3, 5, f64x2(anylen(128)), f64x3(anylen(192)), wit_sym, 64);
h_eqpc1!(c09_t_eqpc_f64x3_f64x2, 5, f64x3(anylen(192)), f64x2(anylen(128)), wit_sym, 64);
h_rel!(c09_t_rel_f64x3_f64x2, 5, f64x3(anylen(192)), f64x2(anylen(128)), wit_sym, 64);

// ---- Bvf x Bvf, different word types: one operator per harness ---------------------------------
// (unwind = max(outer word loop over the wider length in words of the RIGHT operand's type,
//  inner re-chunking loop of the left operand) + 2; `==` and `partial_cmp` quick, rest thorough)
h_ops7!([c09_q_eq_f8x3_f16x2, c09_t_ne_f8x3_f16x2, c09_t_lt_f8x3_f16x2, c09_t_le_f8x3_f16x2, c09_t_gt_f8x3_f16x2, c09_t_ge_f8x3_f16x2, c09_q_pc_f8x3_f16x2],
    4, f8x3(anylen(24)), f16x2(anylen(32)), wit_sym, 8);
h_ops7!([c09_q_eq_f16x2_f8x3, c09_t_ne_f16x2_f8x3, c09_t_lt_f16x2_f8x3, c09_t_le_f16x2_f8x3, c09_t_gt_f16x2_f8x3, c09_t_ge_f16x2_f8x3, c09_q_pc_f16x2_f8x3],
    6, f16x2(anylen(32)), f8x3(anylen(24)), wit_sym, 8);
h_ops7!([c09_q_eq_f16x2_f64x2, c09_t_ne_f16x2_f64x2, c09_t_lt_f16x2_f64x2, c09_t_le_f16x2_f64x2, c09_t_gt_f16x2_f64x2, c09_t_ge_f16x2_f64x2, c09_q_pc_f16x2_f64x2],
    6, f16x2(anylen(32)), f64x2(anylen(128)), wit_sym, 16);
h_ops7!([c09_q_eq_f64x2_f16x2, c09_t_ne_f64x2_f16x2, c09_t_lt_f64x2_f16x2, c09_t_le_f64x2_f16x2, c09_t_gt_f64x2_f16x2, c09_t_ge_f64x2_f16x2, c09_q_pc_f64x2_f16x2],
    10, f64x2(anylen(128)), f16x2(anylen(32)), wit_sym, 16);
h_ops7!([c09_q_eq_f8x2_f64x2, c09_t_ne_f8x2_f64x2, c09_t_lt_f8x2_f64x2, c09_t_le_f8x2_f64x2, c09_t_gt_f8x2_f64x2, c09_t_ge_f8x2_f64x2, c09_q_pc_f8x2_f64x2],
    9, f8x2(anylen(16)), f64x2(anylen(128)), wit_sym, 8);
h_ops7!([c09_t_eq_f64x2_f8x2, c09_t_ne_f64x2_f8x2, c09_t_lt_f64x2_f8x2, c09_t_le_f64x2_f8x2, c09_t_gt_f64x2_f8x2, c09_t_ge_f64x2_f8x2, c09_t_pc_f64x2_f8x2],
    18, f64x2(anylen(128)), f8x2(anylen(16)), wit_sym, 8);
h_op!(c09_t_eq_f32x2_f64x1, 4, f32x2(anylen(64)), f64x1(anylen(64)), wit_sym, 32, ==, m_eq);
h_pc!(c09_t_pc_f64x1_f32x2, 4, f64x1(anylen(64)), f32x2(anylen(64)), wit_sym, 32);
h_op!(c09_t_eq_f64x3_f128x2, 5, f64x3(anylen(192)), f128x2(anylen(256)), wit_sym, 64, ==, m_eq);
h_pc!(c09_t_pc_f128x2_f64x3, 6, f128x2(anylen(256)), f64x3(anylen(192)), wit_sym, 64);

// ---- Bvd x Bvd (PartialEq, PartialOrd, Ord), with spare words: word loops, cheap ----------------
h_cmp_ord2!(c09_q_ord_bvd2_bvd3, 5, bvd2(anylen(128)), bvd3(anylen(192)), wit_sym, 64);
h_cmp_ord2!(c09_q_ord_bvd1_bvd2, 4, bvd1(anylen(64)), bvd2(anylen(128)), wit_sym, 8);
h_cmp_ord2!(c09_q_ord_bvd3_bvd3, 5, bvd3(anylen(192)), bvd3(anylen(192)), wit_sym, 64);
// Same scopes with an unwind bound that also covers a byte-wise slice comparison (memcmp loop) of the
// common words: added after seeded change C09-E, which rewrites Bvd == Bvd on top of slice `==` and
// made the harnesses above inconclusive (unwind bound exceeded) instead of refuting them.
h_cmp_ord2!(c09_q_ordu_bvd1_bvd2, 10, bvd1(anylen(64)), bvd2(anylen(128)), wit_sym, 8);
h_cmp_ord2!(c09_q_ordu_bvd2_bvd3, 18, bvd2(anylen(128)), bvd3(anylen(192)), wit_sym, 64);
h_cmp_ord2!(c09_t_ord_bvd4_bvd1, 6, bvd4(anylen(256)), bvd1(anylen(64)), wit_sym, 64);
h_cmp_ord2!(c09_t_ord_bvd2_bvd2, 4, bvd2(anylen(128)), bvd2(anylen(128)), wit_sym, 64);

// ---- Bvd x Bvf and Bvf x Bvd (the latter delegates and reverses) --------------------------------
// The loop runs max(len(bvd) in bits, words) times. Symbolic short Bvd lengths (spare word
// always present) against every Bvf length ...
h_ops7!([c09_q_eq_bvd2s_f64x2, c09_t_ne_bvd2s_f64x2, c09_t_lt_bvd2s_f64x2, c09_t_le_bvd2s_f64x2, c09_t_gt_bvd2s_f64x2, c09_t_ge_bvd2s_f64x2, c09_q_pc_bvd2s_f64x2],
    12, bvd2(anylen(10)), f64x2(anylen(128)), wit_sym, 8);
h_ops7!([c09_q_eq_f64x2_bvd2s, c09_t_ne_f64x2_bvd2s, c09_t_lt_f64x2_bvd2s, c09_t_le_f64x2_bvd2s, c09_t_gt_f64x2_bvd2s, c09_t_ge_f64x2_bvd2s, c09_q_pc_f64x2_bvd2s],
    12, f64x2(anylen(128)), bvd2(anylen(10)), wit_sym, 8);
h_ops7!([c09_q_eq_bvd1s_f8x3, c09_t_ne_bvd1s_f8x3, c09_t_lt_bvd1s_f8x3, c09_t_le_bvd1s_f8x3, c09_t_gt_bvd1s_f8x3, c09_t_ge_bvd1s_f8x3, c09_q_pc_bvd1s_f8x3],
    12, bvd1(anylen(10)), f8x3(anylen(24)), wit_sym, 8);
h_ops7!([c09_q_eq_f8x3_bvd1s, c09_t_ne_f8x3_bvd1s, c09_t_lt_f8x3_bvd1s, c09_t_le_f8x3_bvd1s, c09_t_gt_f8x3_bvd1s, c09_t_ge_f8x3_bvd1s, c09_q_pc_f8x3_bvd1s],
    12, f8x3(anylen(24)), bvd1(anylen(10)), wit_sym, 8);
// ... concrete long length pairs (contents symbolic): Bvd longer than the Bvf by whole words
// and vice versa, lengths on both sides of a word boundary ...
h_op!(c09_q_eq_bvd3c129_f64x2c128, 131, bvd3(129), f64x2(128), wit_conc, 64, ==, m_eq);
h_pc!(c09_q_pc_bvd3c129_f64x2c128, 131, bvd3(129), f64x2(128), wit_conc, 64);
h_op!(c09_q_eq_f64x2c128_bvd3c129, 131, f64x2(128), bvd3(129), wit_conc, 64, ==, m_eq);
h_pc!(c09_q_pc_f64x2c128_bvd3c129, 131, f64x2(128), bvd3(129), wit_conc, 64);
h_op!(c09_q_eq_bvd2c64_f64x3c192, 66, bvd2(64), f64x3(192), wit_conc, 64, ==, m_eq);
h_pc!(c09_q_pc_bvd2c64_f64x3c192, 66, bvd2(64), f64x3(192), wit_conc, 64);
h_op!(c09_t_lt_bvd3c129_f64x2c128, 131, bvd3(129), f64x2(128), wit_conc, 64, <, m_lt);
h_op!(c09_t_ge_f64x2c128_bvd3c129, 131, f64x2(128), bvd3(129), wit_conc, 64, >=, m_ge);
h_op!(c09_t_eq_bvd2c65_f16x2c32, 67, bvd2(65), f16x2(32), wit_conc, 16, ==, m_eq);
h_pc!(c09_t_pc_bvd2c65_f16x2c32, 67, bvd2(65), f16x2(32), wit_conc, 16);
h_pc!(c09_t_pc_f64x3c192_bvd2c64, 66, f64x3(192), bvd2(64), wit_conc, 64);
// ... and symbolic Bvd lengths across a word boundary (thorough only: several minutes each).
h_op!(c09_t_eq_bvd2m_f64x2, 68, bvd2(anylen(66)), f64x2(anylen(128)), wit_sym, 64, ==, m_eq);
h_pc!(c09_t_pc_bvd2m_f64x2, 68, bvd2(anylen(66)), f64x2(anylen(128)), wit_sym, 64);
h_pc!(c09_t_pc_f64x2_bvd2m, 68, f64x2(anylen(128)), bvd2(anylen(66)), wit_sym, 64);

// ---- Bv x Bv, Bv x Bvd, Bvd x Bv where both sides are heap vectors (word loops, cheap) ----------
h_cmp_ord2!(c09_q_ord_bvdyn2_bvdyn3, 5, bvdyn2(anylen(128)), bvdyn3(anylen(192)), wit_sym, 64);
h_cmp!(c09_q_cmp_bvdyn2_bvd3, 5, bvdyn2(anylen(128)), bvd3(anylen(192)), wit_sym, 64);
h_cmp!(c09_t_cmp_bvdyn3_bvd1, 5, bvdyn3(anylen(192)), bvd1(anylen(64)), wit_sym, 64);
// ---- Bv inline x Bv inline, Bv inline x Bvf<u64,N> (same word type) ------------------------------
h_eqpc!(c09_q_eqpc_bvfix_bvfix, 4, bvfix(anylen(128)), bvfix(anylen(128)), wit_sym, 64);
h_rel!(c09_q_rel_bvfix_bvfix, 4, bvfix(anylen(128)), bvfix(anylen(128)), wit_sym, 64);
h_eqpc1!(c09_q_eqpc_bvfix_f64x2, 4, bvfix(anylen(128)), f64x2(anylen(128)), wit_sym, 64);
h_rel!(c09_q_rel_bvfix_f64x2, 4, bvfix(anylen(128)), f64x2(anylen(128)), wit_sym, 64);
h_eqpc1!(c09_q_eqpc_f64x2_bvfix, 4, f64x2(anylen(128)), bvfix(anylen(128)), wit_sym, 64);
h_rel!(c09_q_rel_f64x2_bvfix, 4, f64x2(anylen(128)), bvfix(anylen(128)), wit_sym, 64);
h_eqpc1!(c09_t_eqpc_bvfix_f64x3, 5, bvfix(anylen(128)), f64x3(anylen(192)), wit_sym, 64);
h_rel!(c09_t_rel_f64x3_bvfix, 5, f64x3(anylen(192)), bvfix(anylen(128)), wit_sym, 64);
// ---- Bv inline x narrower Bvf (re-chunking; Bvf x Bv delegates to Bv x Bvf) -----------------------
h_ops7!([c09_q_eq_bvfix_f8x2, c09_t_ne_bvfix_f8x2, c09_t_lt_bvfix_f8x2, c09_t_le_bvfix_f8x2, c09_t_gt_bvfix_f8x2, c09_t_ge_bvfix_f8x2, c09_q_pc_bvfix_f8x2],
    18, bvfix(anylen(128)), f8x2(anylen(16)), wit_sym, 8);
h_ops7!([c09_q_eq_f8x2_bvfix, c09_t_ne_f8x2_bvfix, c09_t_lt_f8x2_bvfix, c09_t_le_f8x2_bvfix, c09_t_gt_f8x2_bvfix, c09_t_ge_f8x2_bvfix, c09_q_pc_f8x2_bvfix],
    18, f8x2(anylen(16)), bvfix(anylen(128)), wit_sym, 8);
h_op!(c09_t_eq_bvfix_f16x2, 10, bvfix(anylen(128)), f16x2(anylen(32)), wit_sym, 16, ==, m_eq);
h_pc!(c09_t_pc_f16x2_bvfix, 10, f16x2(anylen(32)), bvfix(anylen(128)), wit_sym, 16);
// ---- mixed storage modes: Bv inline x Bv heap, Bv inline x Bvd, Bv heap x Bvf (bit-length loops) --
h_ops7!([c09_q_eq_bvfix_bvdyn2s, c09_t_ne_bvfix_bvdyn2s, c09_t_lt_bvfix_bvdyn2s, c09_t_le_bvfix_bvdyn2s, c09_t_gt_bvfix_bvdyn2s, c09_t_ge_bvfix_bvdyn2s, c09_q_pc_bvfix_bvdyn2s],
    12, bvfix(anylen(128)), bvdyn2(anylen(10)), wit_sym, 8);
h_ops7!([c09_q_eq_bvdyn2s_bvfix, c09_t_ne_bvdyn2s_bvfix, c09_t_lt_bvdyn2s_bvfix, c09_t_le_bvdyn2s_bvfix, c09_t_gt_bvdyn2s_bvfix, c09_t_ge_bvdyn2s_bvfix, c09_q_pc_bvdyn2s_bvfix],
    12, bvdyn2(anylen(10)), bvfix(anylen(128)), wit_sym, 8);
h_ops7!([c09_q_eq_bvfix_bvd1s, c09_t_ne_bvfix_bvd1s, c09_t_lt_bvfix_bvd1s, c09_t_le_bvfix_bvd1s, c09_t_gt_bvfix_bvd1s, c09_t_ge_bvfix_bvd1s, c09_q_pc_bvfix_bvd1s],
    12, bvfix(anylen(128)), bvd1(anylen(10)), wit_sym, 8);
h_ops7!([c09_q_eq_bvd1s_bvfix, c09_t_ne_bvd1s_bvfix, c09_t_lt_bvd1s_bvfix, c09_t_le_bvd1s_bvfix, c09_t_gt_bvd1s_bvfix, c09_t_ge_bvd1s_bvfix, c09_q_pc_bvd1s_bvfix],
    12, bvd1(anylen(10)), bvfix(anylen(128)), wit_sym, 8);
h_ops7!([c09_q_eq_bvdyn2s_f64x2, c09_t_ne_bvdyn2s_f64x2, c09_t_lt_bvdyn2s_f64x2, c09_t_le_bvdyn2s_f64x2, c09_t_gt_bvdyn2s_f64x2, c09_t_ge_bvdyn2s_f64x2, c09_q_pc_bvdyn2s_f64x2],
    12, bvdyn2(anylen(10)), f64x2(anylen(128)), wit_sym, 8);
h_ops7!([c09_q_eq_f16x2_bvdyn1s, c09_t_ne_f16x2_bvdyn1s, c09_t_lt_f16x2_bvdyn1s, c09_t_le_f16x2_bvdyn1s, c09_t_gt_f16x2_bvdyn1s, c09_t_ge_f16x2_bvdyn1s, c09_q_pc_f16x2_bvdyn1s],
    12, f16x2(anylen(32)), bvdyn1(anylen(10)), wit_sym, 8);
h_op!(c09_q_eq_bvfix_c128_bvdyn3_c129, 131, bvfix(128), bvdyn3(129), wit_conc, 64, ==, m_eq);
h_pc!(c09_q_pc_bvdyn3_c129_bvfix_c128, 131, bvdyn3(129), bvfix(128), wit_conc, 64);
h_pc!(c09_t_pc_bvfix_c128_bvd3_c190, 192, bvfix(128), bvd3(190), wit_conc, 64);

// ---- three operands -----------------------------------------------------------------------------
h_order3!(c09_q_order3_f8x2, 4, f8x2(anylen(16)), f8x2(anylen(16)), f8x2(anylen(16)));
h_order3!(c09_q_order3_bvd, 5, bvd3(anylen(192)), bvd2(anylen(128)), bvd1(anylen(64)));
h_order3!(c09_q_order3_bv, 5, bvdyn3(anylen(192)), bvdyn2(anylen(128)), bvdyn1(anylen(64)));
h_order3!(c09_t_order3_mixed, 10, f64x2(anylen(128)), bvd1(anylen(8)), bvfix(anylen(128)));

// ---- Bvd / heap Bv against 128-bit-word Bvf (the u64 view of a u128 word spans two words) ----
h_op!(c09_q_eq_bvd1s_f128x1, 12, bvd1(anylen(10)), f128x1(anylen(128)), wit_sym, 8, ==, m_eq);
h_op!(c09_q_eq_f128x1_bvd1s, 12, f128x1(anylen(128)), bvd1(anylen(10)), wit_sym, 8, ==, m_eq);
h_pc!(c09_q_pc_bvd1s_f128x1, 12, bvd1(anylen(10)), f128x1(anylen(128)), wit_sym, 8);
h_op!(c09_q_eq_bvd2s_f128x2, 12, bvd2(anylen(10)), f128x2(anylen(256)), wit_sym, 8, ==, m_eq);
h_op!(c09_t_eq_bvdyn1s_f128x2, 12, bvdyn1(anylen(10)), f128x2(anylen(256)), wit_sym, 8, ==, m_eq);
h_pc!(c09_t_pc_f128x2_bvd2s, 12, f128x2(anylen(256)), bvd2(anylen(10)), wit_sym, 8);
h_op!(c09_t_eq_bvd2s_f32x2, 12, bvd2(anylen(10)), f32x2(anylen(64)), wit_sym, 8, ==, m_eq);
h_op!(c09_t_eq_bvd2s_fuszx2, 12, bvd2(anylen(10)), fuszx2(anylen(128)), wit_sym, 8, ==, m_eq);

// ---- heap Bv *longer than the Bvf's capacity* but numerically small (length must not matter) ----
h_pc!(c09_q_pc_bvdyn1s_f8x1, 12, bvdyn1(anylen(10)), f8x1(anylen(8)), wit_sym, 8);
h_pc!(c09_q_pc_f8x1_bvdyn1s, 12, f8x1(anylen(8)), bvdyn1(anylen(10)), wit_sym, 8);
h_op!(c09_q_lt_bvdyn1s_f8x1, 12, bvdyn1(anylen(10)), f8x1(anylen(8)), wit_sym, 8, <, m_lt);
h_op!(c09_q_eq_bvdyn1s_f8x1, 12, bvdyn1(anylen(10)), f8x1(anylen(8)), wit_sym, 8, ==, m_eq);
h_pc!(c09_q_pc_bvdyn3c130_f64x1c64, 132, bvdyn3(130), f64x1(64), wit_conc, 64);
h_op!(c09_t_ge_f64x1c64_bvdyn3c130, 132, f64x1(64), bvdyn3(130), wit_conc, 64, >=, m_ge);
