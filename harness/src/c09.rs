//! C09 harnesses (not written yet).
