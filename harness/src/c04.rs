//! C04 — bitwise and/or/xor/not act bit-by-bit within the left operand's length.
//!
//! Oracle: on the *raw storage* of the result (padding bits and spare words included),
//! value == (val(a) op val(b)) mod 2^len(a). Hence "no bit of b at index >= n influences
//! the result or any later observation of it" is part of what is checked.
use crate::big::Big;
use crate::nd;
use crate::scopes::*;
use bva::{Bit, BitVector, Bv, Bvd, Bvf};

macro_rules! bitop_witnesses {
    ($ra:ident, $rb:ident) => {
        w!($rb.len > $ra.len && !$rb.v.fits($ra.len), "rhs longer than lhs with a set bit at index >= len(lhs)");
        w!($ra.len == 0, "empty lhs");
        w!($rb.len == 0 || $rb.v.is_zero(), "empty or zero rhs");
        w!($ra.len > 1 && $ra.v.bit($ra.len - 1) && !$rb.v.bit($ra.len - 1) && !$rb.v.is_zero(), "lhs top bit set where rhs (zero-extended) has a zero");
    };
}

/// Cheap left operands (`Bvf`): one harness decides all three operators in both the
/// `&a op &b` and the `a op= &b` form (symbolic operator choice).
macro_rules! h_bitop_all {
    ($name:ident, $unw:literal, $a:expr, $b:expr) => {
        harness!($name, $unw, {
            let (a, ra) = $a;
            let (b, rb) = $b;
            let n = ra.len;
            bitop_witnesses!(ra, rb);
            let op = nd::upto(2);
            let mut a2 = a.clone();
            let (r, want) = if op == 0 {
                a2 &= &b;
                (&a & &b, ra.v.and(rb.v))
            } else if op == 1 {
                a2 |= &b;
                (&a | &b, ra.v.or(rb.v).trunc(n))
            } else {
                a2 ^= &b;
                (&a ^ &b, ra.v.xor(rb.v).trunc(n))
            };
            let rr = r.into_raw();
            let r2 = a2.into_raw();
            assert!(rr.len == n, "C04: result length differs from lhs length");
            assert!(rr.v == want, "C04: result storage != (a op b) mod 2^len(a)");
            assert!(r2.len == n && r2.v == want, "C04: op-assign storage != (a op b) mod 2^len(a)");
            assert!(a.into_raw() == ra, "C04: lhs of &a op &b modified");
            assert!(b.into_raw() == rb, "C04: rhs modified");
        });
    };
}

/// Heap-backed left operands: one operator and one form per harness (each allocation and
/// each symbolic choice multiplies CBMC's cost).
macro_rules! h_bitop_assign {
    ($name:ident, $unw:literal, $a:expr, $b:expr, $op:tt, $model:ident) => {
        harness!($name, $unw, {
            let (mut a, ra) = $a;
            let (b, rb) = $b;
            let n = ra.len;
            bitop_witnesses!(ra, rb);
            w!(ra.cap >= n + 64, "lhs has a spare storage word");
            a $op &b;
            let r = a.into_raw();
            assert!(r.len == n, "C04: result length differs from lhs length");
            assert!(r.v == ra.v.$model(rb.v).trunc(n), "C04: op-assign storage != (a op b) mod 2^len(a)");
            assert!(r.len <= r.cap, "C04: len > capacity");
            assert!(b.into_raw() == rb, "C04: rhs modified");
        });
    };
}

macro_rules! h_bitop_ref {
    ($name:ident, $unw:literal, $a:expr, $b:expr, $op:tt, $model:ident) => {
        harness!($name, $unw, {
            let (a, ra) = $a;
            let (b, rb) = $b;
            let n = ra.len;
            bitop_witnesses!(ra, rb);
            let r = ((&a) $op (&b)).into_raw();
            assert!(r.len == n, "C04: result length differs from lhs length");
            assert!(r.v == ra.v.$model(rb.v).trunc(n), "C04: result storage != (a op b) mod 2^len(a)");
            assert!(r.len <= r.cap, "C04: len > capacity");
            assert!(a.into_raw() == ra, "C04: lhs of &a op &b modified");
            assert!(b.into_raw() == rb, "C04: rhs modified");
        });
    };
}

/// `!a` (by value).
macro_rules! h_not {
    ($name:ident, $unw:literal, $a:expr) => {
        harness!($name, $unw, {
            let (a, ra) = $a;
            let n = ra.len;
            w!(n == 0, "empty");
            w!(n > 0 && ra.v.is_zero(), "all zeros");
            w!(ra.cap >= n + 64 || n % 8 != 0, "padding or spare storage present");
            let r = (!a).into_raw();
            assert!(r.len == n && r.v == ra.v.not().trunc(n), "C04: !a storage != ~a mod 2^len");
            assert!(r.len <= r.cap, "C04: len > capacity");
        });
    };
}

/// `!&a` (separate implementation for `Bvd`), operand untouched.
macro_rules! h_notref {
    ($name:ident, $unw:literal, $a:expr) => {
        harness!($name, $unw, {
            let (a, ra) = $a;
            let n = ra.len;
            w!(n == 0 || ra.v.bit(n - 1), "empty, or top bit set");
            let r = (!&a).into_raw();
            assert!(r.len == n && r.v == ra.v.not().trunc(n), "C04: !&a storage != ~a mod 2^len");
            assert!(r.len <= r.cap, "C04: len > capacity");
            assert!(a.into_raw() == ra, "C04: operand of !&a modified");
        });
    };
}

// ---- Bvf left operand: all operators, both forms ------------------------------------------
h_bitop_all!(c04_q_all_f8x2_f8x1, 4, f8x2(anylen(16)), f8x1(anylen(8)));
h_bitop_all!(c04_q_all_f8x2_f8x2, 4, f8x2(anylen(16)), f8x2(anylen(16)));
h_bitop_all!(c04_q_all_f8x2_f8x3, 4, f8x2(anylen(16)), f8x3(anylen(24)));
h_bitop_all!(c04_q_all_f8x2_f16x1, 4, f8x2(anylen(16)), f16x1(anylen(16)));
h_bitop_all!(c04_q_all_f8x2_f16x2, 4, f8x2(anylen(16)), f16x2(anylen(32)));
h_bitop_all!(c04_q_all_f8x3_f8x2, 5, f8x3(anylen(24)), f8x2(anylen(16)));
h_bitop_all!(c04_q_all_f16x2_f8x3, 4, f16x2(anylen(32)), f8x3(anylen(24)));
h_bitop_all!(c04_q_all_f16x2_f16x2, 4, f16x2(anylen(32)), f16x2(anylen(32)));
h_bitop_all!(c04_q_all_f64x2_f64x2, 4, f64x2(anylen(128)), f64x2(anylen(128)));
h_bitop_all!(c04_q_all_f64x2_f64x3, 4, f64x2(anylen(128)), f64x3(anylen(192)));
h_bitop_all!(c04_q_all_f64x2_f8x3, 9, f64x2(anylen(128)), f8x3(anylen(24)));
h_bitop_all!(c04_t_all_f32x2_f32x2, 4, f32x2(anylen(64)), f32x2(anylen(64)));
h_bitop_all!(c04_t_all_fuszx2_f64x3, 4, fuszx2(anylen(128)), f64x3(anylen(192)));
h_bitop_all!(c04_t_all_f128x2_f64x3, 4, f128x2(anylen(256)), f64x3(anylen(192)));
h_bitop_all!(c04_t_all_f64x3_f128x2, 5, f64x3(anylen(192)), f128x2(anylen(256)));
h_bitop_all!(c04_q_all_f8x2_bvd1, 4, f8x2(anylen(16)), bvd1(anylen(64)));
h_bitop_all!(c04_q_all_f64x2_bvd3, 4, f64x2(anylen(128)), bvd3(anylen(192)));
h_bitop_all!(c04_q_all_f8x2_bvfix, 4, f8x2(anylen(16)), bvfix(anylen(128)));
h_bitop_all!(c04_q_all_f64x2_bvdyn3, 4, f64x2(anylen(128)), bvdyn3(anylen(192)));
// native integer right operands (lifted through a 128-bit temporary)
h_bitop_all!(c04_q_all_f8x2_u8, 4, f8x2(anylen(16)), iu8());
h_bitop_all!(c04_q_all_f8x2_u16, 4, f8x2(anylen(16)), iu16());
h_bitop_all!(c04_q_all_f8x2_u32, 4, f8x2(anylen(16)), iu32());
h_bitop_all!(c04_q_all_f8x2_u64, 4, f8x2(anylen(16)), iu64());
h_bitop_all!(c04_q_all_f8x2_u128, 4, f8x2(anylen(16)), iu128());
h_bitop_all!(c04_q_all_f8x2_usize, 4, f8x2(anylen(16)), iusize());
h_bitop_all!(c04_q_all_f64x2_u128, 4, f64x2(anylen(128)), iu128());
h_bitop_all!(c04_t_all_f16x2_u64, 4, f16x2(anylen(32)), iu64());

// ---- Bvd left operand (2 allocated words: spare word whenever len <= 64) -------------------
h_bitop_assign!(c04_q_and_bvd2_bvd3, 4, bvd2(anylen(128)), bvd3(anylen(192)), &=, and);
h_bitop_assign!(c04_q_or_bvd2_bvd3, 4, bvd2(anylen(128)), bvd3(anylen(192)), |=, or);
h_bitop_assign!(c04_q_xor_bvd2_bvd3, 4, bvd2(anylen(128)), bvd3(anylen(192)), ^=, xor);
h_bitop_assign!(c04_q_and_bvd2_f64x3, 4, bvd2(anylen(128)), f64x3(anylen(192)), &=, and);
h_bitop_assign!(c04_q_or_bvd2_f64x3, 4, bvd2(anylen(128)), f64x3(anylen(192)), |=, or);
h_bitop_assign!(c04_q_xor_bvd2_f64x3, 4, bvd2(anylen(128)), f64x3(anylen(192)), ^=, xor);
h_bitop_assign!(c04_q_and_bvd2_f8x3, 9, bvd2(anylen(128)), f8x3(anylen(24)), &=, and);
h_bitop_assign!(c04_q_or_bvd2_f8x3, 9, bvd2(anylen(128)), f8x3(anylen(24)), |=, or);
h_bitop_assign!(c04_q_xor_bvd2_f8x3, 9, bvd2(anylen(128)), f8x3(anylen(24)), ^=, xor);
h_bitop_assign!(c04_t_and_bvd3_bvd2, 5, bvd3(anylen(192)), bvd2(anylen(128)), &=, and);
h_bitop_assign!(c04_t_or_bvd3_bvd2, 5, bvd3(anylen(192)), bvd2(anylen(128)), |=, or);
h_bitop_assign!(c04_t_xor_bvd3_bvd2, 5, bvd3(anylen(192)), bvd2(anylen(128)), ^=, xor);
h_bitop_assign!(c04_t_or_bvd3_f16x2, 5, bvd3(anylen(192)), f16x2(anylen(32)), |=, or);
h_bitop_assign!(c04_q_and_bvd2_u128, 4, bvd2(anylen(128)), iu128(), &=, and);
h_bitop_assign!(c04_q_or_bvd2_u128, 4, bvd2(anylen(128)), iu128(), |=, or);
h_bitop_assign!(c04_q_xor_bvd2_u64, 4, bvd2(anylen(128)), iu64(), ^=, xor);
h_bitop_assign!(c04_t_or_bvd1_u8, 9, bvd1(anylen(64)), iu8(), |=, or);
h_bitop_assign!(c04_t_xor_bvd1_u16, 5, bvd1(anylen(64)), iu16(), ^=, xor);
h_bitop_assign!(c04_t_or_bvd1_u32, 4, bvd1(anylen(64)), iu32(), |=, or);
h_bitop_assign!(c04_t_and_bvd1_usize, 4, bvd1(anylen(64)), iusize(), &=, and);
// by-reference form clones the lhs (one more allocation)
h_bitop_ref!(c04_q_refor_bvd2_bvd3, 4, bvd2(anylen(128)), bvd3(anylen(192)), |, or);
h_bitop_ref!(c04_t_refand_bvd2_f64x3, 4, bvd2(anylen(128)), f64x3(anylen(192)), &, and);
h_bitop_ref!(c04_t_refxor_bvd2_u128, 4, bvd2(anylen(128)), iu128(), ^, xor);

// ---- Bv left operand, each storage mode --------------------------------------------------
h_bitop_assign!(c04_q_or_bvfix_bvdyn3, 4, bvfix(anylen(128)), bvdyn3(anylen(192)), |=, or);
h_bitop_assign!(c04_q_xor_bvfix_bvfix, 4, bvfix(anylen(128)), bvfix(anylen(128)), ^=, xor);
h_bitop_assign!(c04_q_and_bvfix_f64x3, 4, bvfix(anylen(128)), f64x3(anylen(192)), &=, and);
h_bitop_assign!(c04_q_or_bvdyn2_bvdyn3, 4, bvdyn2(anylen(128)), bvdyn3(anylen(192)), |=, or);
h_bitop_assign!(c04_q_xor_bvdyn2_bvfix, 4, bvdyn2(anylen(128)), bvfix(anylen(128)), ^=, xor);
h_bitop_assign!(c04_t_and_bvdyn2_bvd3, 4, bvdyn2(anylen(128)), bvd3(anylen(192)), &=, and);
h_bitop_assign!(c04_t_or_bvdyn2_f8x3, 9, bvdyn2(anylen(128)), f8x3(anylen(24)), |=, or);
h_bitop_assign!(c04_q_or_bvfix_u128, 4, bvfix(anylen(128)), iu128(), |=, or);
h_bitop_assign!(c04_q_xor_bvdyn2_u128, 4, bvdyn2(anylen(128)), iu128(), ^=, xor);
h_bitop_ref!(c04_t_refor_bvfix_bvdyn3, 4, bvfix(anylen(128)), bvdyn3(anylen(192)), |, or);
h_bitop_ref!(c04_t_refxor_bvdyn2_bvdyn3, 4, bvdyn2(anylen(128)), bvdyn3(anylen(192)), ^, xor);

// ---- Not --------------------------------------------------------------------------------
h_not!(c04_q_not_f8x2, 4, f8x2(anylen(16)));
h_not!(c04_q_not_f8x3, 5, f8x3(anylen(24)));
h_not!(c04_q_not_f16x2, 4, f16x2(anylen(32)));
h_not!(c04_q_not_f64x2, 4, f64x2(anylen(128)));
h_not!(c04_t_not_f128x2, 4, f128x2(anylen(256)));
h_not!(c04_t_not_f32x2, 4, f32x2(anylen(64)));
h_not!(c04_t_not_fuszx2, 4, fuszx2(anylen(128)));
h_not!(c04_q_not_bvd2, 4, bvd2(anylen(128)));
h_not!(c04_t_not_bvd3, 5, bvd3(anylen(192)));
h_not!(c04_q_not_bvfix, 4, bvfix(anylen(128)));
h_not!(c04_q_not_bvdyn2, 4, bvdyn2(anylen(128)));
h_notref!(c04_q_notref_f8x2, 4, f8x2(anylen(16)));
h_notref!(c04_q_notref_bvfix, 4, bvfix(anylen(128)));
// `!&Bvd` allocates by length: concrete lengths in the quick tier (rule R1) ...
h_notref!(c04_q_notref_bvd3_l0, 5, bvd3(0));
h_notref!(c04_q_notref_bvd3_l1, 5, bvd3(1));
h_notref!(c04_q_notref_bvd3_l63, 5, bvd3(63));
h_notref!(c04_q_notref_bvd3_l64, 5, bvd3(64));
h_notref!(c04_q_notref_bvd3_l65, 5, bvd3(65));
h_notref!(c04_q_notref_bvd3_l128, 5, bvd3(128));
h_notref!(c04_q_notref_bvd3_l130, 5, bvd3(130));
h_notref!(c04_q_notref_bvd3_l192, 5, bvd3(192));
h_notref!(c04_q_notref_bvdyn2_l70, 4, bvdyn2(70));
// ... and a symbolic length in the thorough tier (about two minutes each).
h_notref!(c04_t_notref_bvd2, 4, bvd2(anylen(128)));
h_notref!(c04_t_notref_bvdyn2, 4, bvdyn2(anylen(128)));
