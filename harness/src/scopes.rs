//! Scopes: generators of *arbitrary valid states* (states satisfying the representation
//! invariant `Inv`, DESIGN.md §3.3) of concrete instantiations, and raw-storage readers.
//!
//! Allocation sizes are concrete per generator (rule R1), lengths and contents symbolic.

use crate::big::Big;
use crate::nd;
use bva::{Bv, Bvd, Bvf};

/// Everything that is stored: the length field and *all* storage bits (padding and spare
/// words included) as one little-endian 256-bit number, plus the storage size in bits.
#[derive(Clone, Copy, Debug, PartialEq, Eq)]
pub struct RawV {
    pub len: usize,
    pub v: Big,
    pub cap: usize,
}

impl RawV {
    /// The representation invariant: `len <= capacity` and no storage bit at index >= len.
    #[inline(always)]
    pub fn inv(&self) -> bool {
        self.len <= self.cap && self.v.fits(self.len)
    }
}

pub trait Raw {
    /// Read all storage without consuming (clones heap storage: prefer `into_raw`).
    fn raw(&self) -> RawV;
}

pub trait IntoRaw {
    /// Read all storage, consuming the vector (no allocation).
    fn into_raw(self) -> RawV;
}

macro_rules! raw_bvf {
    ($I:ident, $N:literal, [$($i:literal),*]) => {
        impl Raw for Bvf<$I, $N> {
            #[inline(always)]
            fn raw(&self) -> RawV {
                let (d, len) = self.into_inner();
                const B: usize = <$I>::BITS as usize;
                let mut v = Big::ZERO;
                $( v = v.or(Big::lo(d[$i] as u128).shl($i * B)); )*
                RawV { len, v, cap: $N * B }
            }
        }
        impl IntoRaw for Bvf<$I, $N> {
            #[inline(always)]
            fn into_raw(self) -> RawV {
                self.raw()
            }
        }
    };
}

raw_bvf!(u8, 1, [0]);
raw_bvf!(u8, 2, [0, 1]);
raw_bvf!(u8, 3, [0, 1, 2]);
raw_bvf!(u8, 4, [0, 1, 2, 3]);
raw_bvf!(u16, 1, [0]);
raw_bvf!(u16, 2, [0, 1]);
raw_bvf!(u32, 1, [0]);
raw_bvf!(u32, 2, [0, 1]);
raw_bvf!(u64, 1, [0]);
raw_bvf!(u64, 2, [0, 1]);
raw_bvf!(u64, 3, [0, 1, 2]);
raw_bvf!(usize, 2, [0, 1]);
raw_bvf!(u128, 1, [0]);
raw_bvf!(u128, 2, [0, 1]);

macro_rules! gen_bvf {
    ($gen:ident, $I:ident, $N:literal, [$($i:literal),*]) => {
        /// Arbitrary `Inv` state of the given length (`len <= capacity` is assumed).
        #[inline(always)]
        pub fn $gen(len: usize) -> (Bvf<$I, $N>, RawV) {
            const B: usize = <$I>::BITS as usize;
            nd::assume(len <= $N * B);
            let d: [$I; $N] = [ $( {
                let rem = if len > $i * B { len - $i * B } else { 0 };
                let m: $I = if rem >= B { <$I>::MAX } else { ((1 as $I) << rem) - 1 };
                nd::$I() & m
            } ),* ];
            let b = Bvf::new(d, len);
            let r = b.raw();
            (b, r)
        }
    };
}

gen_bvf!(f8x1, u8, 1, [0]);
gen_bvf!(f8x2, u8, 2, [0, 1]);
gen_bvf!(f8x3, u8, 3, [0, 1, 2]);
gen_bvf!(f8x4, u8, 4, [0, 1, 2, 3]);
gen_bvf!(f16x1, u16, 1, [0]);
gen_bvf!(f16x2, u16, 2, [0, 1]);
gen_bvf!(f32x1, u32, 1, [0]);
gen_bvf!(f32x2, u32, 2, [0, 1]);
gen_bvf!(f64x1, u64, 1, [0]);
gen_bvf!(f64x2, u64, 2, [0, 1]);
gen_bvf!(f64x3, u64, 3, [0, 1, 2]);
gen_bvf!(fuszx2, usize, 2, [0, 1]);
gen_bvf!(f128x1, u128, 1, [0]);
gen_bvf!(f128x2, u128, 2, [0, 1]);

impl Raw for Bvd {
    #[inline(always)]
    fn raw(&self) -> RawV {
        let (d, len) = self.clone().into_inner();
        // Scopes never allocate more than four words; a longer box is a harness bug.
        assert!(d.len() <= 4, "HARNESS: Bvd with more than 4 words is outside every scope");
        let w = |i: usize| if i < d.len() { d[i] } else { 0 };
        RawV {
            len,
            v: Big::limbs(w(0), w(1), w(2), w(3)),
            cap: d.len() * 64,
        }
    }
}

impl IntoRaw for Bvd {
    #[inline(always)]
    fn into_raw(self) -> RawV {
        let (d, len) = self.into_inner();
        assert!(d.len() <= 4, "HARNESS: Bvd with more than 4 words is outside every scope");
        let w = |i: usize| if i < d.len() { d[i] } else { 0 };
        RawV {
            len,
            v: Big::limbs(w(0), w(1), w(2), w(3)),
            cap: d.len() * 64,
        }
    }
}

impl IntoRaw for Bv {
    #[inline(always)]
    fn into_raw(self) -> RawV {
        match self {
            Bv::Fixed(b) => b.raw(),
            Bv::Dynamic(b) => b.into_raw(),
        }
    }
}

#[inline(always)]
fn wm(len: usize, i: usize) -> u64 {
    let rem = if len > i * 64 { len - i * 64 } else { 0 };
    crate::big::m64(rem)
}

/// `Bvd` with exactly W allocated words (W concrete, rule R1) and the given length
/// (`len <= 64 W` assumed): includes states with spare words, all spare bits zero.
/// Returns the raw view alongside so that harnesses need not clone to look at storage.
#[inline(always)]
pub fn bvd0(len: usize) -> (Bvd, RawV) {
    nd::assume(len == 0);
    let e: [u64; 0] = [];
    (
        Bvd::new(Box::new(e) as Box<[u64]>, 0),
        RawV { len: 0, v: Big::ZERO, cap: 0 },
    )
}
#[inline(always)]
pub fn bvd1(len: usize) -> (Bvd, RawV) {
    nd::assume(len <= 64);
    let w0 = nd::u64() & wm(len, 0);
    (
        Bvd::new(Box::new([w0]) as Box<[u64]>, len),
        RawV { len, v: Big::limbs(w0, 0, 0, 0), cap: 64 },
    )
}
#[inline(always)]
pub fn bvd2(len: usize) -> (Bvd, RawV) {
    nd::assume(len <= 128);
    let w0 = nd::u64() & wm(len, 0);
    let w1 = nd::u64() & wm(len, 1);
    (
        Bvd::new(Box::new([w0, w1]) as Box<[u64]>, len),
        RawV { len, v: Big::limbs(w0, w1, 0, 0), cap: 128 },
    )
}
#[inline(always)]
pub fn bvd3(len: usize) -> (Bvd, RawV) {
    nd::assume(len <= 192);
    let w0 = nd::u64() & wm(len, 0);
    let w1 = nd::u64() & wm(len, 1);
    let w2 = nd::u64() & wm(len, 2);
    (
        Bvd::new(Box::new([w0, w1, w2]) as Box<[u64]>, len),
        RawV { len, v: Big::limbs(w0, w1, w2, 0), cap: 192 },
    )
}
#[inline(always)]
pub fn bvd4(len: usize) -> (Bvd, RawV) {
    nd::assume(len <= 256);
    let w0 = nd::u64() & wm(len, 0);
    let w1 = nd::u64() & wm(len, 1);
    let w2 = nd::u64() & wm(len, 2);
    let w3 = nd::u64() & wm(len, 3);
    (
        Bvd::new(Box::new([w0, w1, w2, w3]) as Box<[u64]>, len),
        RawV { len, v: Big::limbs(w0, w1, w2, w3), cap: 256 },
    )
}

impl Raw for Bv {
    #[inline(always)]
    fn raw(&self) -> RawV {
        match self {
            Bv::Fixed(b) => b.raw(),
            Bv::Dynamic(b) => b.raw(),
        }
    }
}

pub fn is_fixed(b: &Bv) -> bool {
    matches!(b, Bv::Fixed(_))
}

/// `Bv` in inline mode.
#[inline(always)]
pub fn bvfix(len: usize) -> (Bv, RawV) {
    let (b, r) = f64x2(len);
    (Bv::Fixed(b), r)
}
/// `Bv` in heap mode with W words; includes heap vectors short enough for inline storage
/// (reachable through pop/truncate/resize, which never demote).
#[inline(always)]
pub fn bvdyn1(len: usize) -> (Bv, RawV) {
    let (b, r) = bvd1(len);
    (Bv::Dynamic(b), r)
}
#[inline(always)]
pub fn bvdyn2(len: usize) -> (Bv, RawV) {
    let (b, r) = bvd2(len);
    (Bv::Dynamic(b), r)
}
#[inline(always)]
pub fn bvdyn3(len: usize) -> (Bv, RawV) {
    let (b, r) = bvd3(len);
    (Bv::Dynamic(b), r)
}

/// Native integer operand: value and its raw view (len = width).
macro_rules! gen_int {
    ($($f:ident, $I:ident);*) => { $(
        #[inline(always)]
        pub fn $f() -> ($I, RawV) {
            let x = nd::$I();
            (x, x.raw())
        }
    )* };
}
gen_int!(iu8, u8; iu16, u16; iu32, u32; iu64, u64; iu128, u128; iusize, usize);

/// Symbolic length in `0..=max`.
#[inline(always)]
pub fn anylen(max: usize) -> usize {
    nd::upto(max)
}

macro_rules! raw_int {
    ($($I:ident),*) => { $(
        impl Raw for $I {
            #[inline(always)]
            fn raw(&self) -> RawV {
                RawV { len: <$I>::BITS as usize, v: Big::lo(*self as u128), cap: <$I>::BITS as usize }
            }
        }
        impl IntoRaw for $I {
            #[inline(always)]
            fn into_raw(self) -> RawV {
                self.raw()
            }
        }
    )* };
}
raw_int!(u8, u16, u32, u64, u128, usize);

