//! C20 — all operator forms agree and borrowed operands are never modified.
//!
//! Differential oracle: no model of the operators is needed (C01..C05 decide *what* they
//! compute). Each harness evaluates several syntactic forms of one operator on *identical*
//! operand states and requires identical raw results `(len, every storage bit)`; operands
//! that were only borrowed, and a clone taken before an in-place operation, must still have
//! their pre-state raw storage afterwards.
//!
//! Identical operand copies are rebuilt from the raw pre-state (`dup` closures) instead of
//! `clone()`d: rebuilding is a concrete-size allocation, and it keeps `clone()` itself out
//! of the trusted base (the explicit clone checks use the real `clone()`).
use crate::big::Big;
use crate::nd;
use crate::scopes::*;
use bva::{Bit, BitVector, Bv, Bvd, Bvf};

// ---- rebuilding an operand from its raw pre-state ---------------------------------------------
#[inline(always)]
fn d1(r: &RawV) -> Bvd {
    Bvd::new(Box::new([r.v.limb(0)]) as Box<[u64]>, r.len)
}
#[inline(always)]
fn d2(r: &RawV) -> Bvd {
    Bvd::new(Box::new([r.v.limb(0), r.v.limb(1)]) as Box<[u64]>, r.len)
}
#[inline(always)]
fn d3(r: &RawV) -> Bvd {
    Bvd::new(Box::new([r.v.limb(0), r.v.limb(1), r.v.limb(2)]) as Box<[u64]>, r.len)
}
#[inline(always)]
fn afix(r: &RawV) -> Bv {
    Bv::Fixed(Bvf::new([r.v.limb(0), r.v.limb(1)], r.len))
}
#[inline(always)]
fn adyn1(r: &RawV) -> Bv {
    Bv::Dynamic(d1(r))
}
#[inline(always)]
fn adyn2(r: &RawV) -> Bv {
    Bv::Dynamic(d2(r))
}
#[inline(always)]
fn adyn3(r: &RawV) -> Bv {
    Bv::Dynamic(d3(r))
}

#[inline(always)]
fn df8x1(r: &RawV) -> Bvf<u8, 1> {
    Bvf::new([r.v.lo as u8], r.len)
}
#[inline(always)]
fn df8x2(r: &RawV) -> Bvf<u8, 2> {
    Bvf::new([r.v.lo as u8, (r.v.lo >> 8) as u8], r.len)
}
#[inline(always)]
fn df8x3(r: &RawV) -> Bvf<u8, 3> {
    Bvf::new([r.v.lo as u8, (r.v.lo >> 8) as u8, (r.v.lo >> 16) as u8], r.len)
}
#[inline(always)]
fn df16x2(r: &RawV) -> Bvf<u16, 2> {
    Bvf::new([r.v.lo as u16, (r.v.lo >> 16) as u16], r.len)
}
#[inline(always)]
fn df64x2(r: &RawV) -> Bvf<u64, 2> {
    Bvf::new([r.v.limb(0), r.v.limb(1)], r.len)
}
#[inline(always)]
fn du8(r: &RawV) -> u8 {
    r.v.lo as u8
}
#[inline(always)]
fn du16(r: &RawV) -> u16 {
    r.v.lo as u16
}
#[inline(always)]
fn du32(r: &RawV) -> u32 {
    r.v.lo as u32
}
#[inline(always)]
fn du64(r: &RawV) -> u64 {
    r.v.lo as u64
}
#[inline(always)]
fn du128(r: &RawV) -> u128 {
    r.v.lo
}
#[inline(always)]
fn dusize(r: &RawV) -> usize {
    r.v.lo as usize
}

/// Same length and same bits (the capacity of a freshly allocated result may differ).
#[inline(always)]
fn same(x: &RawV, y: &RawV) -> bool {
    x.len == y.len && x.v == y.v
}

// ---- vectors built from a native integer ---------------------------------------------------------
#[inline(always)]
fn v_f8(x: u8) -> Bvf<u8, 1> {
    Bvf::<u8, 1>::try_from(x).unwrap()
}
#[inline(always)]
fn v_f16(x: u16) -> Bvf<u16, 1> {
    Bvf::<u16, 1>::try_from(x).unwrap()
}
#[inline(always)]
fn v_f32(x: u32) -> Bvf<u32, 1> {
    Bvf::<u32, 1>::try_from(x).unwrap()
}
#[inline(always)]
fn v_f64(x: u64) -> Bvf<u64, 1> {
    Bvf::<u64, 1>::try_from(x).unwrap()
}
#[inline(always)]
fn v_f128(x: u128) -> Bvf<u64, 2> {
    Bvf::<u64, 2>::try_from(x).unwrap()
}
#[inline(always)]
fn v_d64(x: u64) -> Bvd {
    Bvd::from(x)
}
#[inline(always)]
fn v_d32(x: u32) -> Bvd {
    Bvd::from(x)
}
#[inline(always)]
fn v_a16(x: u16) -> Bv {
    Bv::from(x)
}
#[inline(always)]
fn v_a64(x: u64) -> Bv {
    Bv::from(x)
}

// ---- pre-conditions -------------------------------------------------------------------------------
#[inline(always)]
fn any(_ra: &RawV, _rb: &RawV) -> bool {
    true
}
/// Division / remainder: a zero divisor makes every form panic (decided by the `zero`
/// must-panic harnesses below and by C02).
#[inline(always)]
fn nz(_ra: &RawV, rb: &RawV) -> bool {
    !rb.v.is_zero()
}

// ---- vacuity witnesses ----------------------------------------------------------------------------
/// Symbolic lengths on both sides.
macro_rules! w_sym {
    ($ra:ident, $rb:ident) => {
        w!($rb.len > $ra.len && !$rb.v.fits($ra.len), "rhs longer than lhs with a set bit at index >= len(lhs)");
        w!($ra.len > 0 && $ra.v == Big::mask($ra.len) && !$rb.v.is_zero(), "lhs all ones and rhs non-zero (carries)");
        w!($ra.len == 0 || $rb.len == 0, "an empty operand");
    };
}
/// Any scope (concrete lengths included).
macro_rules! w_val {
    ($ra:ident, $rb:ident) => {
        w!(!$ra.v.is_zero() && !$rb.v.is_zero(), "both operands non-zero");
        w!($rb.v.cmp($ra.v) == std::cmp::Ordering::Greater, "rhs larger in value than lhs");
        w!($ra.len == 0 || ($ra.v == Big::mask($ra.len) && !$rb.v.is_zero()), "lhs all ones and rhs non-zero (or lhs empty)");
    };
}
/// Shift amounts (rhs is the native shift amount).
macro_rules! w_sh {
    ($ra:ident, $rb:ident) => {
        w!($ra.len > 8 && !$rb.v.is_zero() && $rb.v.lo % 8 == 0 && $rb.v.lo < $ra.len as u128 && $ra.v.bit(0), "byte-aligned shift smaller than len, bit 0 set");
        w!($ra.len > 1 && $rb.v.lo % 8 != 0 && $rb.v.lo < $ra.len as u128 && $ra.v.bit($ra.len - 1), "unaligned shift smaller than len, top bit set");
        w!($ra.len > 0 && $rb.v.lo >= $ra.len as u128, "shift amount >= len");
        w!($ra.len > 0 && $rb.v.is_zero(), "shift by zero");
    };
}
/// Shift amounts when the length is concrete (possibly tiny).
macro_rules! w_shc {
    ($ra:ident, $rb:ident) => {
        w!($ra.len < 2 || (!$rb.v.is_zero() && $rb.v.lo < $ra.len as u128 && $ra.v.bit(0) && $ra.v.bit($ra.len - 1)), "shift in 1..len with both end bits set (or len < 2)");
        w!($rb.v.lo >= $ra.len as u128, "shift amount >= len");
        w!($rb.v.is_zero(), "shift by zero");
    };
}

/// All six forms in one harness. `$da` / `$db` rebuild a copy of the operand from its raw
/// pre-state; `$pre` restricts the operand pair; `$wit` is the witness set.
macro_rules! h_six {
    ($name:ident, $unw:literal, $a:expr, $da:expr, $b:expr, $db:expr, $op:tt, $opa:tt, $pre:expr, $wit:ident) => {
        harness!($name, $unw, {
            let (a0, ra) = $a;
            let (b0, rb) = $b;
            let da = $da;
            let db = $db;
            nd::assume($pre(&ra, &rb));
            $wit!(ra, rb);
            let r_rr = ((&a0) $op (&b0)).into_raw();
            let r_oo = (da(&ra) $op db(&rb)).into_raw();
            let r_or = (da(&ra) $op (&b0)).into_raw();
            let r_ro = ((&a0) $op db(&rb)).into_raw();
            let mut x = da(&ra);
            x $opa db(&rb);
            let r_ao = x.into_raw();
            let mut y = da(&ra);
            let keep = y.clone();
            y $opa (&b0);
            let r_ar = y.into_raw();
            assert!(same(&r_oo, &r_rr), "C20: `a op b` differs from `&a op &b`");
            assert!(same(&r_or, &r_rr), "C20: `a op &b` differs from `&a op &b`");
            assert!(same(&r_ro, &r_rr), "C20: `&a op b` differs from `&a op &b`");
            assert!(same(&r_ao, &r_rr), "C20: `a op= b` differs from `&a op &b`");
            assert!(same(&r_ar, &r_rr), "C20: `a op= &b` differs from `&a op &b`");
            assert!(r_rr.len == ra.len, "C20: result length differs from the lhs length");
            assert!(keep.into_raw() == ra, "C20: a clone taken before `a op= &b` changed");
            assert!(a0.into_raw() == ra, "C20: borrowed lhs modified");
            assert!(b0.into_raw() == rb, "C20: borrowed rhs modified");
        });
    };
}

/// Native integer rhs `x`: the six forms, and `x` directly versus a vector built from `x`.
macro_rules! h_six_int {
    ($name:ident, $unw:literal, $a:expr, $da:expr, $b:expr, $db:expr, $mkv:expr, $op:tt, $opa:tt, $pre:expr, $wit:ident) => {
        harness!($name, $unw, {
            let (a0, ra) = $a;
            let (b0, rb) = $b;
            let da = $da;
            let db = $db;
            nd::assume($pre(&ra, &rb));
            $wit!(ra, rb);
            let r_rr = ((&a0) $op (&b0)).into_raw();
            let r_oo = (da(&ra) $op db(&rb)).into_raw();
            let r_or = (da(&ra) $op (&b0)).into_raw();
            let r_ro = ((&a0) $op db(&rb)).into_raw();
            let mut x = da(&ra);
            x $opa db(&rb);
            let r_ao = x.into_raw();
            let mut y = da(&ra);
            y $opa (&b0);
            let r_ar = y.into_raw();
            let vb = $mkv(b0);
            let r_v = ((&a0) $op (&vb)).into_raw();
            let mut z = da(&ra);
            z $opa (&vb);
            let r_va = z.into_raw();
            assert!(same(&r_oo, &r_rr), "C20: `a op x` differs from `&a op &x`");
            assert!(same(&r_or, &r_rr), "C20: `a op &x` differs from `&a op &x`");
            assert!(same(&r_ro, &r_rr), "C20: `&a op x` differs from `&a op &x`");
            assert!(same(&r_ao, &r_rr), "C20: `a op= x` differs from `&a op &x`");
            assert!(same(&r_ar, &r_rr), "C20: `a op= &x` differs from `&a op &x`");
            assert!(same(&r_v, &r_rr), "C20: `&a op &vector(x)` differs from `&a op &x`");
            assert!(same(&r_va, &r_rr), "C20: `a op= &vector(x)` differs from `&a op &x`");
            assert!(r_rr.len == ra.len, "C20: result length differs from the lhs length");
            assert!(a0.into_raw() == ra, "C20: borrowed lhs modified");
            assert!(b0 == db(&rb), "C20: borrowed integer modified");
            assert!(vb.into_raw().v == rb.v, "C20: borrowed vector built from x modified");
        });
    };
}

/// Two forms per harness (heap operands: every further form multiplies the cost): one form
/// against the reference `&a op &b`.
macro_rules! h_pair {
    ($name:ident, $unw:literal, $form:ident, $a:expr, $da:expr, $b:expr, $db:expr, $op:tt, $opa:tt, $pre:expr, $wit:ident) => {
        harness!($name, $unw, {
            let (a0, ra) = $a;
            let (b0, rb) = $b;
            let da = $da;
            let db = $db;
            nd::assume($pre(&ra, &rb));
            $wit!(ra, rb);
            let got = pair_form!($form, da, db, ra, rb, b0, $op, $opa);
            let want = ((&a0) $op (&b0)).into_raw();
            assert!(same(&got, &want), "C20: this form differs from `&a op &b`");
            assert!(a0.into_raw() == ra, "C20: borrowed lhs modified");
            assert!(b0.into_raw() == rb, "C20: borrowed rhs modified");
        });
    };
}
macro_rules! pair_form {
    (oo, $da:ident, $db:ident, $ra:ident, $rb:ident, $b0:ident, $op:tt, $opa:tt) => {
        ($da(&$ra) $op $db(&$rb)).into_raw()
    };
    (or, $da:ident, $db:ident, $ra:ident, $rb:ident, $b0:ident, $op:tt, $opa:tt) => {
        ($da(&$ra) $op (&$b0)).into_raw()
    };
    (ro, $da:ident, $db:ident, $ra:ident, $rb:ident, $b0:ident, $op:tt, $opa:tt) => {{
        let a1 = $da(&$ra);
        let r = ((&a1) $op $db(&$rb)).into_raw();
        assert!(a1.into_raw() == $ra, "C20: borrowed lhs of `&a op b` modified");
        r
    }};
    (ao, $da:ident, $db:ident, $ra:ident, $rb:ident, $b0:ident, $op:tt, $opa:tt) => {{
        let mut x = $da(&$ra);
        x $opa $db(&$rb);
        x.into_raw()
    }};
    (ar, $da:ident, $db:ident, $ra:ident, $rb:ident, $b0:ident, $op:tt, $opa:tt) => {{
        let mut x = $da(&$ra);
        let keep = x.clone();
        x $opa (&$b0);
        assert!(keep.into_raw() == $ra, "C20: a clone taken before `a op= &b` changed");
        x.into_raw()
    }};
}

/// `!a` versus `!&a` (the latter is a separate implementation for `Bvd`).
macro_rules! h_not {
    ($name:ident, $unw:literal, $a:expr, $da:expr) => {
        harness!($name, $unw, {
            let (a0, ra) = $a;
            let da = $da;
            w!(ra.len == 0 || ra.v.bit(ra.len - 1), "top bit set (or empty)");
            w!(ra.len == 0 || !ra.v.bit(ra.len - 1), "top bit clear (or empty)");
            let r_r = (!&a0).into_raw();
            let r_o = (!da(&ra)).into_raw();
            assert!(same(&r_o, &r_r), "C20: `!a` differs from `!&a`");
            assert!(a0.into_raw() == ra, "C20: operand of `!&a` modified");
        });
    };
}

/// Division / remainder by zero: whatever the form, the call must panic. The divisor is a
/// zero vector of symbolic length with *concrete* zero storage (constant propagation then
/// prunes the division algorithm behind the zero test).
macro_rules! h_zero {
    ($name:ident, $unw:literal, $a:expr, $da:expr, $blen:expr, $bcap:literal, $db:expr) => {
        harness_mp!($name, $unw, {
            let (a0, ra) = $a;
            let da = $da;
            let db = $db;
            let rb = RawV { len: $blen, v: Big::ZERO, cap: $bcap };
            let b0 = db(&rb);
            let f = nd::upto(11);
            if f == 0 {
                let _ = (&a0) / (&b0);
            } else if f == 1 {
                let _ = da(&ra) / db(&rb);
            } else if f == 2 {
                let _ = da(&ra) / (&b0);
            } else if f == 3 {
                let _ = (&a0) / db(&rb);
            } else if f == 4 {
                let mut x = da(&ra);
                x /= db(&rb);
            } else if f == 5 {
                let mut x = da(&ra);
                x /= &b0;
            } else if f == 6 {
                let _ = (&a0) % (&b0);
            } else if f == 7 {
                let _ = da(&ra) % db(&rb);
            } else if f == 8 {
                let _ = da(&ra) % (&b0);
            } else if f == 9 {
                let _ = (&a0) % db(&rb);
            } else if f == 10 {
                let mut x = da(&ra);
                x %= db(&rb);
            } else {
                let mut x = da(&ra);
                x %= &b0;
            }
            never!("NEVER:a form of / or % returned for a zero divisor");
        });
    };
}

// ==== Bvf x Bvf (different word counts) ======================================================
h_six!(c20_q_add_f8x2_f8x3, 5, f8x2(anylen(16)), df8x2, f8x3(anylen(24)), df8x3, +, +=, any, w_sym);
h_six!(c20_q_sub_f8x2_f8x3, 5, f8x2(anylen(16)), df8x2, f8x3(anylen(24)), df8x3, -, -=, any, w_sym);
h_six!(c20_q_and_f8x2_f8x3, 5, f8x2(anylen(16)), df8x2, f8x3(anylen(24)), df8x3, &, &=, any, w_sym);
h_six!(c20_q_or_f8x2_f8x3, 5, f8x2(anylen(16)), df8x2, f8x3(anylen(24)), df8x3, |, |=, any, w_sym);
h_six!(c20_q_xor_f8x2_f8x3, 5, f8x2(anylen(16)), df8x2, f8x3(anylen(24)), df8x3, ^, ^=, any, w_sym);
h_six!(c20_q_mul_f8x2l16_f8x3l24, 6, f8x2(16), df8x2, f8x3(24), df8x3, *, *=, any, w_val);
h_six!(c20_q_mul_f8x2l6_f8x3l5, 6, f8x2(6), df8x2, f8x3(5), df8x3, *, *=, any, w_val);
h_six!(c20_t_mul_f8x2l11_f8x3l9, 6, f8x2(11), df8x2, f8x3(9), df8x3, *, *=, any, w_val);
h_pair!(c20_t_div_oo_f8x2l4_f8x3l3, 6, oo, f8x2(4), df8x2, f8x3(3), df8x3, /, /=, nz, w_val);
h_pair!(c20_t_div_or_f8x2l4_f8x3l3, 6, or, f8x2(4), df8x2, f8x3(3), df8x3, /, /=, nz, w_val);
h_pair!(c20_t_div_ro_f8x2l4_f8x3l3, 6, ro, f8x2(4), df8x2, f8x3(3), df8x3, /, /=, nz, w_val);
h_pair!(c20_t_div_ao_f8x2l4_f8x3l3, 6, ao, f8x2(4), df8x2, f8x3(3), df8x3, /, /=, nz, w_val);
h_pair!(c20_t_div_ar_f8x2l4_f8x3l3, 6, ar, f8x2(4), df8x2, f8x3(3), df8x3, /, /=, nz, w_val);
h_pair!(c20_t_rem_oo_f8x2l4_f8x3l3, 6, oo, f8x2(4), df8x2, f8x3(3), df8x3, %, %=, nz, w_val);
h_pair!(c20_t_rem_or_f8x2l4_f8x3l3, 6, or, f8x2(4), df8x2, f8x3(3), df8x3, %, %=, nz, w_val);
h_pair!(c20_t_rem_ao_f8x2l4_f8x3l3, 6, ao, f8x2(4), df8x2, f8x3(3), df8x3, %, %=, nz, w_val);
h_pair!(c20_t_rem_ar_f8x2l4_f8x3l3, 6, ar, f8x2(4), df8x2, f8x3(3), df8x3, %, %=, nz, w_val);
h_six!(c20_t_add_f16x2_f8x3, 6, f16x2(anylen(32)), df16x2, f8x3(anylen(24)), df8x3, +, +=, any, w_sym);
h_six!(c20_t_add_f64x2_f64x2, 4, f64x2(anylen(128)), df64x2, f64x2(anylen(128)), df64x2, +, +=, any, w_sym);
h_six!(c20_t_sub_f16x2_f8x3, 6, f16x2(anylen(32)), df16x2, f8x3(anylen(24)), df8x3, -, -=, any, w_sym);
h_six!(c20_t_sub_f64x2_f64x2, 4, f64x2(anylen(128)), df64x2, f64x2(anylen(128)), df64x2, -, -=, any, w_sym);
h_six!(c20_t_and_f16x2_f8x3, 6, f16x2(anylen(32)), df16x2, f8x3(anylen(24)), df8x3, &, &=, any, w_sym);
h_six!(c20_t_and_f64x2_f64x2, 4, f64x2(anylen(128)), df64x2, f64x2(anylen(128)), df64x2, &, &=, any, w_sym);
h_six!(c20_t_or_f16x2_f8x3, 6, f16x2(anylen(32)), df16x2, f8x3(anylen(24)), df8x3, |, |=, any, w_sym);
h_six!(c20_t_or_f64x2_f64x2, 4, f64x2(anylen(128)), df64x2, f64x2(anylen(128)), df64x2, |, |=, any, w_sym);
h_six!(c20_t_xor_f16x2_f8x3, 6, f16x2(anylen(32)), df16x2, f8x3(anylen(24)), df8x3, ^, ^=, any, w_sym);
h_six!(c20_t_xor_f64x2_f64x2, 4, f64x2(anylen(128)), df64x2, f64x2(anylen(128)), df64x2, ^, ^=, any, w_sym);
// ==== Bvf x native integer (+ "x directly" versus "vector built from x") ========================
h_six_int!(c20_q_add_f8x2_u32, 10, f8x2(anylen(16)), df8x2, iu32(), du32, v_f32, +, +=, any, w_sym);
h_six_int!(c20_q_sub_f8x2_u32, 10, f8x2(anylen(16)), df8x2, iu32(), du32, v_f32, -, -=, any, w_sym);
h_six_int!(c20_q_and_f8x2_u32, 10, f8x2(anylen(16)), df8x2, iu32(), du32, v_f32, &, &=, any, w_sym);
h_six_int!(c20_q_or_f8x2_u32, 10, f8x2(anylen(16)), df8x2, iu32(), du32, v_f32, |, |=, any, w_sym);
h_six_int!(c20_q_xor_f8x2_u32, 10, f8x2(anylen(16)), df8x2, iu32(), du32, v_f32, ^, ^=, any, w_sym);
h_six_int!(c20_q_mul_f8x2l16_u32, 10, f8x2(16), df8x2, iu32(), du32, v_f32, *, *=, any, w_val);
h_six_int!(c20_t_mul_f8x2l6_u32, 10, f8x2(6), df8x2, iu32(), du32, v_f32, *, *=, any, w_val);
h_six_int!(c20_t_add_f8x2_u8, 10, f8x2(anylen(16)), df8x2, iu8(), du8, v_f8, +, +=, any, w_sym);
h_six_int!(c20_t_add_f64x2_u128, 6, f64x2(anylen(128)), df64x2, iu128(), du128, v_f128, +, +=, any, w_sym);
h_six_int!(c20_t_sub_f8x2_u8, 10, f8x2(anylen(16)), df8x2, iu8(), du8, v_f8, -, -=, any, w_sym);
h_six_int!(c20_t_sub_f64x2_u128, 6, f64x2(anylen(128)), df64x2, iu128(), du128, v_f128, -, -=, any, w_sym);
h_six_int!(c20_t_and_f8x2_u8, 10, f8x2(anylen(16)), df8x2, iu8(), du8, v_f8, &, &=, any, w_sym);
h_six_int!(c20_t_and_f64x2_u128, 6, f64x2(anylen(128)), df64x2, iu128(), du128, v_f128, &, &=, any, w_sym);
h_six_int!(c20_t_or_f8x2_u8, 10, f8x2(anylen(16)), df8x2, iu8(), du8, v_f8, |, |=, any, w_sym);
h_six_int!(c20_t_or_f64x2_u128, 6, f64x2(anylen(128)), df64x2, iu128(), du128, v_f128, |, |=, any, w_sym);
h_six_int!(c20_t_xor_f8x2_u8, 10, f8x2(anylen(16)), df8x2, iu8(), du8, v_f8, ^, ^=, any, w_sym);
h_six_int!(c20_t_xor_f64x2_u128, 6, f64x2(anylen(128)), df64x2, iu128(), du128, v_f128, ^, ^=, any, w_sym);
h_six!(c20_q_shl_f8x2_u32, 8, f8x2(anylen(16)), df8x2, iu32(), du32, <<, <<=, any, w_sh);
h_six!(c20_q_shl_f8x2_usize, 8, f8x2(anylen(16)), df8x2, iusize(), dusize, <<, <<=, any, w_sh);
h_six!(c20_t_shl_f8x3_u8, 10, f8x3(anylen(24)), df8x3, iu8(), du8, <<, <<=, any, w_sh);
h_six!(c20_t_shl_f16x2_u16, 8, f16x2(anylen(32)), df16x2, iu16(), du16, <<, <<=, any, w_sh);
h_six!(c20_q_shr_f8x2_u32, 8, f8x2(anylen(16)), df8x2, iu32(), du32, >>, >>=, any, w_sh);
h_six!(c20_q_shr_f8x2_usize, 8, f8x2(anylen(16)), df8x2, iusize(), dusize, >>, >>=, any, w_sh);
h_six!(c20_t_shr_f8x3_u8, 10, f8x3(anylen(24)), df8x3, iu8(), du8, >>, >>=, any, w_sh);
h_six!(c20_t_shr_f64x2_u128, 8, f64x2(anylen(128)), df64x2, iu128(), du128, >>, >>=, any, w_sh);
h_six!(c20_t_shr_f16x2_u16, 8, f16x2(anylen(32)), df16x2, iu16(), du16, >>, >>=, any, w_sh);
// ==== Bvd x Bvd (two allocated words each: spare word whenever len <= 64) =======================
h_six!(c20_q_add_bvd2_bvd2, 4, bvd2(anylen(128)), d2, bvd2(anylen(128)), d2, +, +=, any, w_sym);
h_six!(c20_t_add_bvd2_bvd3, 5, bvd2(anylen(128)), d2, bvd3(anylen(192)), d3, +, +=, any, w_sym);
h_six!(c20_q_sub_bvd2_bvd2, 4, bvd2(anylen(128)), d2, bvd2(anylen(128)), d2, -, -=, any, w_sym);
h_six!(c20_t_sub_bvd2_bvd3, 5, bvd2(anylen(128)), d2, bvd3(anylen(192)), d3, -, -=, any, w_sym);
h_six!(c20_q_and_bvd2_bvd2, 4, bvd2(anylen(128)), d2, bvd2(anylen(128)), d2, &, &=, any, w_sym);
h_six!(c20_t_and_bvd2_bvd3, 5, bvd2(anylen(128)), d2, bvd3(anylen(192)), d3, &, &=, any, w_sym);
h_six!(c20_q_or_bvd2_bvd2, 4, bvd2(anylen(128)), d2, bvd2(anylen(128)), d2, |, |=, any, w_sym);
h_six!(c20_t_or_bvd2_bvd3, 5, bvd2(anylen(128)), d2, bvd3(anylen(192)), d3, |, |=, any, w_sym);
h_six!(c20_q_xor_bvd2_bvd2, 4, bvd2(anylen(128)), d2, bvd2(anylen(128)), d2, ^, ^=, any, w_sym);
h_six!(c20_t_xor_bvd2_bvd3, 5, bvd2(anylen(128)), d2, bvd3(anylen(192)), d3, ^, ^=, any, w_sym);
h_six!(c20_q_mul_bvd2l6_bvd1l5, 6, bvd2(6), d2, bvd1(5), d1, *, *=, any, w_val);
h_six!(c20_q_mul_bvd2l100_bvd2l70, 6, bvd2(100), d2, bvd2(70), d2, *, *=, any, w_val);
h_six!(c20_t_mul_bvd1l5_bvd2l7, 6, bvd1(5), d1, bvd2(7), d2, *, *=, any, w_val);
h_pair!(c20_t_div_oo_bvd2l4_bvd1l3, 6, oo, bvd2(4), d2, bvd1(3), d1, /, /=, nz, w_val);
h_pair!(c20_t_div_ar_bvd2l4_bvd1l3, 6, ar, bvd2(4), d2, bvd1(3), d1, /, /=, nz, w_val);
h_pair!(c20_t_rem_oo_bvd2l4_bvd1l3, 6, oo, bvd2(4), d2, bvd1(3), d1, %, %=, nz, w_val);
h_pair!(c20_t_rem_ar_bvd2l4_bvd1l3, 6, ar, bvd2(4), d2, bvd1(3), d1, %, %=, nz, w_val);
// ==== Bvd x Bvf ==========================================================================
h_six!(c20_q_add_bvd2_f64x2, 4, bvd2(anylen(128)), d2, f64x2(anylen(128)), df64x2, +, +=, any, w_sym);
h_six!(c20_t_sub_bvd2_f64x2, 4, bvd2(anylen(128)), d2, f64x2(anylen(128)), df64x2, -, -=, any, w_sym);
h_six!(c20_t_and_bvd2_f64x2, 4, bvd2(anylen(128)), d2, f64x2(anylen(128)), df64x2, &, &=, any, w_sym);
h_six!(c20_t_or_bvd2_f64x2, 4, bvd2(anylen(128)), d2, f64x2(anylen(128)), df64x2, |, |=, any, w_sym);
h_six!(c20_t_xor_bvd2_f64x2, 4, bvd2(anylen(128)), d2, f64x2(anylen(128)), df64x2, ^, ^=, any, w_sym);
h_pair!(c20_q_add_ar_bvd2_f8x2, 10, ar, bvd2(anylen(128)), d2, f8x2(anylen(16)), df8x2, +, +=, any, w_sym);
h_pair!(c20_q_xor_oo_bvd2_f8x2, 10, oo, bvd2(anylen(128)), d2, f8x2(anylen(16)), df8x2, ^, ^=, any, w_sym);
h_six!(c20_t_mul_bvd2l6_f8x2l5, 10, bvd2(6), d2, f8x2(5), df8x2, *, *=, any, w_val);
// ==== Bvd x native integer ====================================================================
h_six_int!(c20_q_add_bvd2_u64, 4, bvd2(anylen(128)), d2, iu64(), du64, v_d64, +, +=, any, w_sym);
h_six_int!(c20_t_sub_bvd2_u64, 4, bvd2(anylen(128)), d2, iu64(), du64, v_d64, -, -=, any, w_sym);
h_six_int!(c20_t_and_bvd2_u64, 4, bvd2(anylen(128)), d2, iu64(), du64, v_d64, &, &=, any, w_sym);
h_six_int!(c20_t_or_bvd2_u64, 4, bvd2(anylen(128)), d2, iu64(), du64, v_d64, |, |=, any, w_sym);
h_six_int!(c20_t_xor_bvd2_u64, 4, bvd2(anylen(128)), d2, iu64(), du64, v_d64, ^, ^=, any, w_sym);
h_six_int!(c20_t_mul_bvd2l6_u32, 6, bvd2(6), d2, iu32(), du32, v_d32, *, *=, any, w_val);
// ==== Bvd shifts: `&Bvd << k` / `&Bvd >> k` are separate implementations that allocate by length
// quick: the separately implemented by-reference form against the in-place form at a length lattice;
// thorough: all six forms at every lattice length, and a symbolic length.
h_pair!(c20_q_shl_ao_bvd2l1_usize, 6, ao, bvd2(1), d2, iusize(), dusize, <<, <<=, any, w_shc);
h_pair!(c20_q_shl_ao_bvd2l64_usize, 6, ao, bvd2(64), d2, iusize(), dusize, <<, <<=, any, w_shc);
h_pair!(c20_q_shl_ao_bvd2l65_usize, 6, ao, bvd2(65), d2, iusize(), dusize, <<, <<=, any, w_shc);
h_pair!(c20_q_shl_ao_bvd2l128_usize, 6, ao, bvd2(128), d2, iusize(), dusize, <<, <<=, any, w_shc);
h_six!(c20_t_shl_bvd2l65_usize, 6, bvd2(65), d2, iusize(), dusize, <<, <<=, any, w_shc);
h_six!(c20_t_shl_bvd2l128_usize, 6, bvd2(128), d2, iusize(), dusize, <<, <<=, any, w_shc);
h_six!(c20_t_shl_bvd3l129_u32, 8, bvd3(129), d3, iu32(), du32, <<, <<=, any, w_shc);
h_pair!(c20_q_shr_ao_bvd2l1_usize, 6, ao, bvd2(1), d2, iusize(), dusize, >>, >>=, any, w_shc);
h_pair!(c20_q_shr_ao_bvd2l64_usize, 6, ao, bvd2(64), d2, iusize(), dusize, >>, >>=, any, w_shc);
h_pair!(c20_q_shr_ao_bvd2l65_usize, 6, ao, bvd2(65), d2, iusize(), dusize, >>, >>=, any, w_shc);
h_pair!(c20_q_shr_ao_bvd2l128_usize, 6, ao, bvd2(128), d2, iusize(), dusize, >>, >>=, any, w_shc);
h_six!(c20_t_shr_bvd2l65_usize, 6, bvd2(65), d2, iusize(), dusize, >>, >>=, any, w_shc);
h_six!(c20_t_shr_bvd2l128_usize, 6, bvd2(128), d2, iusize(), dusize, >>, >>=, any, w_shc);
h_six!(c20_t_shr_bvd3l129_u32, 8, bvd3(129), d3, iu32(), du32, >>, >>=, any, w_shc);
// ==== Bv x Bv, every pair of storage modes ========================================================
h_six!(c20_q_add_afix_afix, 4, bvfix(anylen(128)), afix, bvfix(anylen(128)), afix, +, +=, any, w_sym);
h_six!(c20_t_sub_afix_afix, 4, bvfix(anylen(128)), afix, bvfix(anylen(128)), afix, -, -=, any, w_sym);
h_six!(c20_q_and_afix_afix, 4, bvfix(anylen(128)), afix, bvfix(anylen(128)), afix, &, &=, any, w_sym);
h_six!(c20_t_or_afix_afix, 4, bvfix(anylen(128)), afix, bvfix(anylen(128)), afix, |, |=, any, w_sym);
h_six!(c20_t_xor_afix_afix, 4, bvfix(anylen(128)), afix, bvfix(anylen(128)), afix, ^, ^=, any, w_sym);
h_six!(c20_t_add_afix_adyn, 4, bvfix(anylen(128)), afix, bvdyn2(anylen(128)), adyn2, +, +=, any, w_sym);
h_six!(c20_q_sub_afix_adyn, 4, bvfix(anylen(128)), afix, bvdyn2(anylen(128)), adyn2, -, -=, any, w_sym);
h_six!(c20_t_and_afix_adyn, 4, bvfix(anylen(128)), afix, bvdyn2(anylen(128)), adyn2, &, &=, any, w_sym);
h_six!(c20_q_or_afix_adyn, 4, bvfix(anylen(128)), afix, bvdyn2(anylen(128)), adyn2, |, |=, any, w_sym);
h_six!(c20_t_xor_afix_adyn, 4, bvfix(anylen(128)), afix, bvdyn2(anylen(128)), adyn2, ^, ^=, any, w_sym);
h_six!(c20_q_add_adyn_afix, 4, bvdyn2(anylen(128)), adyn2, bvfix(anylen(128)), afix, +, +=, any, w_sym);
h_six!(c20_t_sub_adyn_afix, 4, bvdyn2(anylen(128)), adyn2, bvfix(anylen(128)), afix, -, -=, any, w_sym);
h_six!(c20_t_and_adyn_afix, 4, bvdyn2(anylen(128)), adyn2, bvfix(anylen(128)), afix, &, &=, any, w_sym);
h_six!(c20_t_or_adyn_afix, 4, bvdyn2(anylen(128)), adyn2, bvfix(anylen(128)), afix, |, |=, any, w_sym);
h_six!(c20_q_xor_adyn_afix, 4, bvdyn2(anylen(128)), adyn2, bvfix(anylen(128)), afix, ^, ^=, any, w_sym);
h_six!(c20_q_add_adyn_adyn, 4, bvdyn2(anylen(128)), adyn2, bvdyn2(anylen(128)), adyn2, +, +=, any, w_sym);
h_six!(c20_q_sub_adyn_adyn, 4, bvdyn2(anylen(128)), adyn2, bvdyn2(anylen(128)), adyn2, -, -=, any, w_sym);
h_six!(c20_t_and_adyn_adyn, 4, bvdyn2(anylen(128)), adyn2, bvdyn2(anylen(128)), adyn2, &, &=, any, w_sym);
h_six!(c20_t_or_adyn_adyn, 4, bvdyn2(anylen(128)), adyn2, bvdyn2(anylen(128)), adyn2, |, |=, any, w_sym);
h_six!(c20_t_xor_adyn_adyn, 4, bvdyn2(anylen(128)), adyn2, bvdyn2(anylen(128)), adyn2, ^, ^=, any, w_sym);
h_six!(c20_t_mul_afixl6_afixl5, 6, bvfix(6), afix, bvfix(5), afix, *, *=, any, w_val);
h_six!(c20_q_mul_afixl6_adynl5, 6, bvfix(6), afix, bvdyn1(5), adyn1, *, *=, any, w_val);
h_six!(c20_q_mul_adynl6_afixl5, 6, bvdyn1(6), adyn1, bvfix(5), afix, *, *=, any, w_val);
h_six!(c20_t_mul_adynl6_adynl5, 6, bvdyn1(6), adyn1, bvdyn1(5), adyn1, *, *=, any, w_val);
h_pair!(c20_t_div_oo_adynl4_adynl3, 6, oo, bvdyn1(4), adyn1, bvdyn1(3), adyn1, /, /=, nz, w_val);
h_pair!(c20_t_div_ar_adynl4_adynl3, 6, ar, bvdyn1(4), adyn1, bvdyn1(3), adyn1, /, /=, nz, w_val);
h_pair!(c20_t_rem_oo_adynl4_adynl3, 6, oo, bvdyn1(4), adyn1, bvdyn1(3), adyn1, %, %=, nz, w_val);
h_pair!(c20_t_rem_ar_adynl4_adynl3, 6, ar, bvdyn1(4), adyn1, bvdyn1(3), adyn1, %, %=, nz, w_val);
// ==== Bv x Bvf / Bvd (the remaining dispatch arms) ==================================================
h_six!(c20_q_add_afix_f64x2, 4, bvfix(anylen(128)), afix, f64x2(anylen(128)), df64x2, +, +=, any, w_sym);
h_six!(c20_t_add_afix_bvd2, 4, bvfix(anylen(128)), afix, bvd2(anylen(128)), d2, +, +=, any, w_sym);
h_six!(c20_t_sub_afix_f64x2, 4, bvfix(anylen(128)), afix, f64x2(anylen(128)), df64x2, -, -=, any, w_sym);
h_six!(c20_t_sub_afix_bvd2, 4, bvfix(anylen(128)), afix, bvd2(anylen(128)), d2, -, -=, any, w_sym);
h_six!(c20_t_and_afix_f64x2, 4, bvfix(anylen(128)), afix, f64x2(anylen(128)), df64x2, &, &=, any, w_sym);
h_six!(c20_t_and_afix_bvd2, 4, bvfix(anylen(128)), afix, bvd2(anylen(128)), d2, &, &=, any, w_sym);
h_six!(c20_t_or_afix_f64x2, 4, bvfix(anylen(128)), afix, f64x2(anylen(128)), df64x2, |, |=, any, w_sym);
h_six!(c20_t_or_afix_bvd2, 4, bvfix(anylen(128)), afix, bvd2(anylen(128)), d2, |, |=, any, w_sym);
h_six!(c20_t_xor_afix_f64x2, 4, bvfix(anylen(128)), afix, f64x2(anylen(128)), df64x2, ^, ^=, any, w_sym);
h_six!(c20_q_xor_afix_bvd2, 4, bvfix(anylen(128)), afix, bvd2(anylen(128)), d2, ^, ^=, any, w_sym);
h_six!(c20_t_mul_afixl6_f8x2l5, 10, bvfix(6), afix, f8x2(5), df8x2, *, *=, any, w_val);
h_six!(c20_t_mul_afixl6_bvd1l5, 6, bvfix(6), afix, bvd1(5), d1, *, *=, any, w_val);
h_six!(c20_t_add_adyn_f64x2, 4, bvdyn2(anylen(128)), adyn2, f64x2(anylen(128)), df64x2, +, +=, any, w_sym);
h_six!(c20_t_add_adyn_bvd2, 4, bvdyn2(anylen(128)), adyn2, bvd2(anylen(128)), d2, +, +=, any, w_sym);
h_six!(c20_t_sub_adyn_f64x2, 4, bvdyn2(anylen(128)), adyn2, f64x2(anylen(128)), df64x2, -, -=, any, w_sym);
h_six!(c20_t_sub_adyn_bvd2, 4, bvdyn2(anylen(128)), adyn2, bvd2(anylen(128)), d2, -, -=, any, w_sym);
h_six!(c20_t_and_adyn_f64x2, 4, bvdyn2(anylen(128)), adyn2, f64x2(anylen(128)), df64x2, &, &=, any, w_sym);
h_six!(c20_t_and_adyn_bvd2, 4, bvdyn2(anylen(128)), adyn2, bvd2(anylen(128)), d2, &, &=, any, w_sym);
h_six!(c20_t_or_adyn_f64x2, 4, bvdyn2(anylen(128)), adyn2, f64x2(anylen(128)), df64x2, |, |=, any, w_sym);
h_six!(c20_t_or_adyn_bvd2, 4, bvdyn2(anylen(128)), adyn2, bvd2(anylen(128)), d2, |, |=, any, w_sym);
h_six!(c20_t_xor_adyn_f64x2, 4, bvdyn2(anylen(128)), adyn2, f64x2(anylen(128)), df64x2, ^, ^=, any, w_sym);
h_six!(c20_q_xor_adyn_bvd2, 4, bvdyn2(anylen(128)), adyn2, bvd2(anylen(128)), d2, ^, ^=, any, w_sym);
h_six!(c20_t_mul_adynl6_f8x2l5, 10, bvdyn1(6), adyn1, f8x2(5), df8x2, *, *=, any, w_val);
h_six!(c20_t_mul_adynl6_bvd1l5, 6, bvdyn1(6), adyn1, bvd1(5), d1, *, *=, any, w_val);
// ==== Bv x native integer ======================================================================
h_six_int!(c20_q_add_afix_u16, 6, bvfix(anylen(128)), afix, iu16(), du16, v_a16, +, +=, any, w_sym);
h_six_int!(c20_t_sub_afix_u16, 6, bvfix(anylen(128)), afix, iu16(), du16, v_a16, -, -=, any, w_sym);
h_six_int!(c20_t_and_afix_u16, 6, bvfix(anylen(128)), afix, iu16(), du16, v_a16, &, &=, any, w_sym);
h_six_int!(c20_q_or_afix_u16, 6, bvfix(anylen(128)), afix, iu16(), du16, v_a16, |, |=, any, w_sym);
h_six_int!(c20_t_xor_afix_u16, 6, bvfix(anylen(128)), afix, iu16(), du16, v_a16, ^, ^=, any, w_sym);
h_six_int!(c20_t_mul_afixl6_u16, 6, bvfix(6), afix, iu16(), du16, v_a16, *, *=, any, w_val);
h_pair!(c20_t_div_oo_afixl4_u16, 6, oo, bvfix(4), afix, iu16(), du16, /, /=, nz, w_val);
h_pair!(c20_t_div_ar_afixl4_u16, 6, ar, bvfix(4), afix, iu16(), du16, /, /=, nz, w_val);
h_six_int!(c20_q_add_adyn_u16, 6, bvdyn2(anylen(128)), adyn2, iu16(), du16, v_a16, +, +=, any, w_sym);
h_six_int!(c20_t_sub_adyn_u16, 6, bvdyn2(anylen(128)), adyn2, iu16(), du16, v_a16, -, -=, any, w_sym);
h_six_int!(c20_t_and_adyn_u16, 6, bvdyn2(anylen(128)), adyn2, iu16(), du16, v_a16, &, &=, any, w_sym);
h_six_int!(c20_q_or_adyn_u16, 6, bvdyn2(anylen(128)), adyn2, iu16(), du16, v_a16, |, |=, any, w_sym);
h_six_int!(c20_t_xor_adyn_u16, 6, bvdyn2(anylen(128)), adyn2, iu16(), du16, v_a16, ^, ^=, any, w_sym);
h_six_int!(c20_t_mul_adynl6_u16, 6, bvdyn1(6), adyn1, iu16(), du16, v_a16, *, *=, any, w_val);
h_pair!(c20_t_div_oo_adynl4_u16, 6, oo, bvdyn1(4), adyn1, iu16(), du16, /, /=, nz, w_val);
h_pair!(c20_t_div_ar_adynl4_u16, 6, ar, bvdyn1(4), adyn1, iu16(), du16, /, /=, nz, w_val);
h_pair!(c20_t_rem_oo_adynl4_u16, 6, oo, bvdyn1(4), adyn1, iu16(), du16, %, %=, nz, w_val);
h_pair!(c20_t_rem_ar_adynl4_u16, 6, ar, bvdyn1(4), adyn1, iu16(), du16, %, %=, nz, w_val);
h_pair!(c20_q_shl_ao_afix_u16, 6, ao, bvfix(anylen(128)), afix, iu16(), du16, <<, <<=, any, w_sh);
h_pair!(c20_q_shl_ro_adyn2l100_u16, 6, ro, bvdyn2(100), adyn2, iu16(), du16, <<, <<=, any, w_shc);
h_six!(c20_t_shl_adyn2l64_u16, 6, bvdyn2(64), adyn2, iu16(), du16, <<, <<=, any, w_shc);
h_pair!(c20_q_shr_ao_afix_u16, 6, ao, bvfix(anylen(128)), afix, iu16(), du16, >>, >>=, any, w_sh);
h_pair!(c20_q_shr_ro_adyn2l100_u16, 6, ro, bvdyn2(100), adyn2, iu16(), du16, >>, >>=, any, w_shc);
h_six!(c20_t_shr_afix_u16, 6, bvfix(anylen(128)), afix, iu16(), du16, >>, >>=, any, w_sh);
h_six!(c20_t_shr_adyn2l64_u16, 6, bvdyn2(64), adyn2, iu16(), du16, >>, >>=, any, w_shc);
// ==== !a versus !&a ========================================================================
h_not!(c20_q_not_f8x2, 4, f8x2(anylen(16)), df8x2);
h_not!(c20_q_not_f64x2, 4, f64x2(anylen(128)), df64x2);
h_not!(c20_q_not_afix, 4, bvfix(anylen(128)), afix);
h_not!(c20_q_not_bvd2l0, 4, bvd2(0), d2);
h_not!(c20_q_not_bvd2l1, 4, bvd2(1), d2);
h_not!(c20_q_not_bvd2l64, 4, bvd2(64), d2);
h_not!(c20_q_not_bvd2l65, 4, bvd2(65), d2);
h_not!(c20_q_not_bvd2l128, 4, bvd2(128), d2);
h_not!(c20_t_not_bvd3l5, 5, bvd3(5), d3);
h_not!(c20_t_not_bvd3l70, 5, bvd3(70), d3);
h_not!(c20_t_not_bvd3l129, 5, bvd3(129), d3);
h_not!(c20_t_not_bvd3l192, 5, bvd3(192), d3);
h_not!(c20_q_not_adyn2l70, 4, bvdyn2(70), adyn2);
h_not!(c20_t_not_bvd2, 4, bvd2(anylen(128)), d2);
// ==== zero divisor: every form panics =============================================================
h_zero!(c20_q_zero_f8x2_f8x3, 6, f8x2(anylen(16)), df8x2, anylen(24), 24, df8x3);
h_zero!(c20_q_zero_afix_afix, 6, bvfix(anylen(128)), afix, anylen(128), 128, afix);
h_zero!(c20_t_zero_bvd2l9_bvd1l7, 6, bvd2(9), d2, 7, 64, d1);
h_zero!(c20_t_zero_adyn1l9_afix, 6, bvdyn1(9), adyn1, anylen(128), 128, afix);

// ---- added after seeded changes slipped through the quick tier ---------------------------------
// (1) the hand-written `&Bvd << k` / `&Bvd >> k` against the in-place form with **u128** amounts
//     (amounts >= 2^64 whose low word is small take a different path in a truncating cast);
h_pair!(c20_q_shl_ao_bvd2l65_u128, 6, ao, bvd2(65), d2, iu128(), du128, <<, <<=, any, w_shc);
h_pair!(c20_q_shr_ao_bvd2l65_u128, 6, ao, bvd2(65), d2, iu128(), du128, >>, >>=, any, w_shc);
h_pair!(c20_q_shl_oo_bvd1l1_u128, 4, oo, bvd1(1), d1, iu128(), du128, <<, <<=, any, w_shc);
h_pair!(c20_t_shr_ar_bvd2l128_u128, 6, ar, bvd2(128), d2, iu128(), du128, >>, >>=, any, w_shc);
// (2) the storage-less empty `Bvd` (no allocated word) as either operand of every form of `*`.
fn d0(_r: &RawV) -> Bvd {
    Bvd::new(Box::new([0u64; 0]) as Box<[u64]>, 0)
}
macro_rules! w_none {
    ($ra:ident, $rb:ident) => {
        w!($ra.len == 0 || $rb.len == 0, "an operand without storage");
    };
}
h_six!(c20_q_mul_bvd1l8_bvd0, 4, bvd1(8), d1, bvd0(0), d0, *, *=, any, w_none);
h_six!(c20_q_mul_bvd0_bvd1l8, 4, bvd0(0), d0, bvd1(8), d1, *, *=, any, w_none);
h_six!(c20_q_add_bvd1l8_bvd0, 4, bvd1(8), d1, bvd0(0), d0, +, +=, any, w_none);
h_six!(c20_q_xor_bvd0_bvd1l8, 4, bvd0(0), d0, bvd1(8), d1, ^, ^=, any, w_none);
// (3) a native integer against the same value as a *one-word* vector of the subject's word type,
//     on a three-word subject (the two routes take different arms of the carry propagation);
#[inline(always)]
fn df64x3(r: &RawV) -> Bvf<u64, 3> {
    Bvf::new([r.v.limb(0), r.v.limb(1), r.v.limb(2)], r.len)
}
h_six_int!(c20_q_add_f64x3_u64_vs_f64x1, 6, f64x3(anylen(192)), df64x3, iu64(), du64, v_f64, +, +=, any, w_sym);
h_six_int!(c20_q_sub_f64x3_u64_vs_f64x1, 6, f64x3(anylen(192)), df64x3, iu64(), du64, v_f64, -, -=, any, w_sym);
// (4) `/=` and `%=` of an inline Bv by a borrowed heap vector longer than 128 bits whose value
//     needs those upper bits (quotient 0, remainder = dividend), against `&a op &b`.
//     The divisor's top bit (bit 129) is concrete so that its number of significant bits, and
//     with it every allocation size inside div_rem, is a constant; the low 128 bits are symbolic.
#[inline(always)]
fn bvd3_top129() -> (Bvd, RawV) {
    let (w0, w1) = (nd::u64(), nd::u64());
    (
        Bvd::new(Box::new([w0, w1, 2u64]) as Box<[u64]>, 130),
        RawV { len: 130, v: Big::limbs(w0, w1, 2, 0), cap: 192 },
    )
}
macro_rules! w_big_divisor {
    ($ra:ident, $rb:ident) => {
        w!($rb.v.limb(0) == 0 && $rb.v.limb(1) == 0 && !$ra.v.is_zero(), "the divisor's low 128 bits are all zero");
    };
}
h_pair!(c20_q_div_ar_afixl3_bvd3top, 6, ar, bvfix(3), afix, bvd3_top129(), d3, /, /=, nz, w_big_divisor);
h_pair!(c20_q_rem_ar_afixl3_bvd3top, 6, ar, bvfix(3), afix, bvd3_top129(), d3, %, %=, nz, w_big_divisor);
