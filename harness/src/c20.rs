//! C20 harnesses (not written yet).
