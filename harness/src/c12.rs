//! C12 harnesses (not written yet).
