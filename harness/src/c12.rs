//! C12 — conversions between implementations preserve the length and every bit.
//!
//! Oracle, on the raw storage of the result (`into_raw()`, padding and spare words
//! included): a conversion into a fixed type `T` is `Ok` with `len == len(src)` and
//! storage `== val(src)` iff `len(src) <= T::capacity()`, and `Err(NotEnoughCapacity)`
//! otherwise; a conversion into `Bvd`/`Bv` always yields `(len(src), val(src))` with
//! `len <= capacity`. By-reference conversions leave the source untouched.
//! `new(into_inner(v))` reproduces `v` structurally (all storage words, length, capacity).
//!
//! Cost rules: conversions into `Bvd` (and into `Bv` from a fixed type wider than 128 bits)
//! allocate by the source *length*: a concrete length lattice plus symbolic lengths for sources
//! of up to two 64-bit words in the quick tier (measured 10-25 s each), symbolic lengths for
//! three/four-word sources in the thorough tier. Everything else has symbolic lengths.
use crate::big::Big;
use crate::nd;
use crate::scopes::*;
use bva::{Bit, BitVector, Bv, Bvd, Bvf, ConvertionError};

/// Result of a fallible conversion of a source with raw view `$ra` into the fixed type `$T`.
macro_rules! check_try {
    ($res:expr, $ra:ident, $T:ty) => {
        let cap = <$T>::capacity();
        match $res {
            Ok(v) => {
                let r = v.into_raw();
                assert!($ra.len <= cap, "C12: conversion succeeded although the source is longer than the target capacity");
                assert!(r.len == $ra.len, "C12: length changed by the conversion");
                assert!(r.v == $ra.v, "C12: bits changed by the conversion (or result padding not zero)");
            }
            Err(e) => {
                assert!($ra.len > cap, "C12: conversion failed although the source length fits the target capacity");
                assert!(e == ConvertionError::NotEnoughCapacity, "C12: wrong error");
            }
        }
    };
}

/// Result (raw view `$r`) of an infallible conversion of a source with raw view `$ra`.
macro_rules! check_same {
    ($r:ident, $ra:ident) => {
        assert!($r.len == $ra.len, "C12: length changed by the conversion");
        assert!($r.v == $ra.v, "C12: bits changed by the conversion (or result padding/spare words not zero)");
        assert!($r.len <= $r.cap, "C12: len > capacity");
    };
}

/// Witnesses for a fallible conversion; `$tw` = bits of the target's storage word.
macro_rules! wit_try {
    ($ra:ident, $T:ty, $tw:literal) => {
        let tcap = <$T>::capacity();
        w!($ra.len == if tcap < $ra.cap { tcap } else { $ra.cap }, "source exactly as long as the target capacity (or a full source if that is shorter)");
        w!(if $ra.cap > tcap { $ra.len == tcap + 1 } else { $ra.len == 0 }, "source one bit longer than the target capacity (or empty if it cannot be longer)");
        w!($ra.len % $tw != 0 && $ra.len <= tcap && $ra.v.bit($ra.len - 1), "fitting length that is not a multiple of the target word, top bit set");
        w!($ra.len + 8 <= $ra.cap && !$ra.v.is_zero(), "non-zero value below unused storage");
        let _sep = nd::bool(); // keeps counterexample traces distinct from witness traces (playback dedupe)
    };
}

/// Witnesses for an infallible conversion with a symbolic source length.
macro_rules! wit_any {
    ($ra:ident) => {
        w!($ra.len == $ra.cap && $ra.v.bit($ra.len - 1), "full source, top bit set");
        w!($ra.len == 0, "empty source");
        w!($ra.len % 64 != 0 && $ra.v.bit($ra.len - 1), "length that is not a multiple of 64, top bit set");
        w!($ra.len + 8 <= $ra.cap && !$ra.v.is_zero(), "non-zero value below unused storage");
        let _sep = nd::bool(); // keeps counterexample traces distinct from witness traces (playback dedupe)
    };
}

/// Witnesses when the source length is concrete (contents symbolic).
macro_rules! wit_conc {
    ($ra:ident) => {
        w!($ra.len == 0 || $ra.v.bit($ra.len - 1), "empty, or top bit set");
        w!($ra.len == 0 || !$ra.v.bit($ra.len - 1), "empty, or top bit clear");
        w!($ra.len < 2 || ($ra.v.bit(0) && !$ra.v.bit(1)), "shorter than two bits, or bits 0 and 1 differ");
        let _sep = nd::bool(); // keeps counterexample traces distinct from witness traces (playback dedupe)
    };
}

// =============================================================================================
// Fallible conversions into Bvf
// =============================================================================================

/// `T::try_from(&src)`; the source stays intact.
macro_rules! h_try_ref {
    ($name:ident, $unw:literal, $src:expr, $T:ty, $tw:literal) => {
        harness!($name, $unw, {
            let (a, ra) = $src;
            wit_try!(ra, $T, $tw);
            check_try!(<$T>::try_from(&a), ra, $T);
            assert!(a.into_raw() == ra, "C12: source modified by a by-reference conversion");
        });
    };
}

/// `T::try_from(src)`.
macro_rules! h_try_val {
    ($name:ident, $unw:literal, $src:expr, $T:ty, $tw:literal) => {
        harness!($name, $unw, {
            let (a, ra) = $src;
            wit_try!(ra, $T, $tw);
            check_try!(<$T>::try_from(a), ra, $T);
        });
    };
}

// ---- Bvf -> Bvf (by reference only: no by-value impl exists) ------------------------------------
// unwind: target words (outer loop, symbolic bound) vs. target word / source word (inner loop)
h_try_ref!(c12_q_f8x2_to_f8x2, 4, f8x2(anylen(16)), Bvf<u8, 2>, 8);
h_try_ref!(c12_q_f8x2_to_f8x3, 5, f8x2(anylen(16)), Bvf<u8, 3>, 8);
h_try_ref!(c12_q_f8x2_to_f16x1, 4, f8x2(anylen(16)), Bvf<u16, 1>, 16);
h_try_ref!(c12_q_f8x2_to_f16x2, 4, f8x2(anylen(16)), Bvf<u16, 2>, 16);
h_try_ref!(c12_q_f8x2_to_f64x2, 10, f8x2(anylen(16)), Bvf<u64, 2>, 64);
h_try_ref!(c12_q_f8x2_to_f64x3, 10, f8x2(anylen(16)), Bvf<u64, 3>, 64);
h_try_ref!(c12_q_f8x3_to_f8x2, 4, f8x3(anylen(24)), Bvf<u8, 2>, 8);
h_try_ref!(c12_q_f8x3_to_f8x3, 5, f8x3(anylen(24)), Bvf<u8, 3>, 8);
h_try_ref!(c12_q_f8x3_to_f16x1, 4, f8x3(anylen(24)), Bvf<u16, 1>, 16);
h_try_ref!(c12_q_f8x3_to_f16x2, 4, f8x3(anylen(24)), Bvf<u16, 2>, 16);
h_try_ref!(c12_q_f8x3_to_f64x2, 10, f8x3(anylen(24)), Bvf<u64, 2>, 64);
h_try_ref!(c12_q_f8x3_to_f64x3, 10, f8x3(anylen(24)), Bvf<u64, 3>, 64);
h_try_ref!(c12_q_f16x1_to_f8x2, 4, f16x1(anylen(16)), Bvf<u8, 2>, 8);
h_try_ref!(c12_q_f16x1_to_f8x3, 5, f16x1(anylen(16)), Bvf<u8, 3>, 8);
h_try_ref!(c12_q_f16x1_to_f16x1, 3, f16x1(anylen(16)), Bvf<u16, 1>, 16);
h_try_ref!(c12_q_f16x1_to_f16x2, 4, f16x1(anylen(16)), Bvf<u16, 2>, 16);
h_try_ref!(c12_q_f16x1_to_f64x2, 6, f16x1(anylen(16)), Bvf<u64, 2>, 64);
h_try_ref!(c12_q_f16x1_to_f64x3, 6, f16x1(anylen(16)), Bvf<u64, 3>, 64);
h_try_ref!(c12_q_f16x2_to_f8x2, 4, f16x2(anylen(32)), Bvf<u8, 2>, 8);
h_try_ref!(c12_q_f16x2_to_f8x3, 5, f16x2(anylen(32)), Bvf<u8, 3>, 8);
h_try_ref!(c12_q_f16x2_to_f16x1, 3, f16x2(anylen(32)), Bvf<u16, 1>, 16);
h_try_ref!(c12_q_f16x2_to_f16x2, 4, f16x2(anylen(32)), Bvf<u16, 2>, 16);
h_try_ref!(c12_q_f16x2_to_f64x2, 6, f16x2(anylen(32)), Bvf<u64, 2>, 64);
h_try_ref!(c12_q_f16x2_to_f64x3, 6, f16x2(anylen(32)), Bvf<u64, 3>, 64);
h_try_ref!(c12_q_f64x2_to_f8x2, 4, f64x2(anylen(128)), Bvf<u8, 2>, 8);
h_try_ref!(c12_q_f64x2_to_f8x3, 5, f64x2(anylen(128)), Bvf<u8, 3>, 8);
h_try_ref!(c12_q_f64x2_to_f16x1, 3, f64x2(anylen(128)), Bvf<u16, 1>, 16);
h_try_ref!(c12_q_f64x2_to_f16x2, 4, f64x2(anylen(128)), Bvf<u16, 2>, 16);
h_try_ref!(c12_q_f64x2_to_f64x2, 4, f64x2(anylen(128)), Bvf<u64, 2>, 64);
h_try_ref!(c12_q_f64x2_to_f64x3, 5, f64x2(anylen(128)), Bvf<u64, 3>, 64);
h_try_ref!(c12_q_f64x3_to_f8x2, 4, f64x3(anylen(192)), Bvf<u8, 2>, 8);
h_try_ref!(c12_q_f64x3_to_f8x3, 5, f64x3(anylen(192)), Bvf<u8, 3>, 8);
h_try_ref!(c12_q_f64x3_to_f16x1, 3, f64x3(anylen(192)), Bvf<u16, 1>, 16);
h_try_ref!(c12_q_f64x3_to_f16x2, 4, f64x3(anylen(192)), Bvf<u16, 2>, 16);
h_try_ref!(c12_q_f64x3_to_f64x2, 4, f64x3(anylen(192)), Bvf<u64, 2>, 64);
h_try_ref!(c12_q_f64x3_to_f64x3, 5, f64x3(anylen(192)), Bvf<u64, 3>, 64);
// further word types
h_try_ref!(c12_q_f32x2_to_f8x4, 6, f32x2(anylen(64)), Bvf<u8, 4>, 8);
h_try_ref!(c12_q_f8x4_to_f32x1, 6, f8x4(anylen(32)), Bvf<u32, 1>, 32);
h_try_ref!(c12_q_f128x2_to_f64x3, 5, f128x2(anylen(256)), Bvf<u64, 3>, 64);
h_try_ref!(c12_q_f64x3_to_f128x1, 4, f64x3(anylen(192)), Bvf<u128, 1>, 128);
h_try_ref!(c12_q_fuszx2_to_f64x2, 4, fuszx2(anylen(128)), Bvf<u64, 2>, 64);
h_try_ref!(c12_q_f64x2_to_fuszx2, 4, f64x2(anylen(128)), Bvf<usize, 2>, 64);

// ---- Bvd -> Bvf (sources with spare words; lengths beyond the target capacity) -------------------
h_try_ref!(c12_q_bvd1_to_f8x2, 4, bvd1(anylen(64)), Bvf<u8, 2>, 8);
h_try_val!(c12_q_bvd2_into_f8x3, 5, bvd2(anylen(128)), Bvf<u8, 3>, 8);
h_try_ref!(c12_q_bvd2_to_f16x2, 4, bvd2(anylen(128)), Bvf<u16, 2>, 16);
h_try_val!(c12_q_bvd1_into_f16x1, 4, bvd1(anylen(64)), Bvf<u16, 1>, 16);
h_try_ref!(c12_q_bvd3_to_f64x2, 5, bvd3(anylen(192)), Bvf<u64, 2>, 64);
h_try_val!(c12_q_bvd3_into_f64x2, 5, bvd3(anylen(192)), Bvf<u64, 2>, 64);
h_try_ref!(c12_q_bvd2_to_f64x3, 5, bvd2(anylen(128)), Bvf<u64, 3>, 64);
h_try_val!(c12_q_bvd3_into_f64x3, 5, bvd3(anylen(192)), Bvf<u64, 3>, 64);
h_try_ref!(c12_q_bvd3_to_f8x2, 5, bvd3(anylen(192)), Bvf<u8, 2>, 8);
h_try_val!(c12_q_bvd2_into_f16x2, 4, bvd2(anylen(128)), Bvf<u16, 2>, 16);
h_try_ref!(c12_q_bvd4_to_f64x3, 6, bvd4(anylen(256)), Bvf<u64, 3>, 64);
h_try_ref!(c12_q_bvd3_to_f128x1, 5, bvd3(anylen(192)), Bvf<u128, 1>, 128);
h_try_val!(c12_q_bvd2_into_f32x2, 4, bvd2(anylen(128)), Bvf<u32, 2>, 32);

// ---- Bv -> Bvf (both storage modes) --------------------------------------------------------------
h_try_ref!(c12_q_bvfix_to_f8x2, 4, bvfix(anylen(128)), Bvf<u8, 2>, 8);
h_try_val!(c12_q_bvfix_into_f8x3, 5, bvfix(anylen(128)), Bvf<u8, 3>, 8);
h_try_ref!(c12_q_bvfix_to_f16x2, 4, bvfix(anylen(128)), Bvf<u16, 2>, 16);
h_try_ref!(c12_q_bvfix_to_f64x2, 4, bvfix(anylen(128)), Bvf<u64, 2>, 64);
h_try_val!(c12_q_bvfix_into_f64x3, 5, bvfix(anylen(128)), Bvf<u64, 3>, 64);
h_try_ref!(c12_q_bvdyn2_to_f8x3, 5, bvdyn2(anylen(128)), Bvf<u8, 3>, 8);
h_try_val!(c12_q_bvdyn2_into_f16x1, 4, bvdyn2(anylen(128)), Bvf<u16, 1>, 16);
h_try_ref!(c12_q_bvdyn3_to_f64x2, 5, bvdyn3(anylen(192)), Bvf<u64, 2>, 64);
h_try_val!(c12_q_bvdyn3_into_f64x3, 5, bvdyn3(anylen(192)), Bvf<u64, 3>, 64);
h_try_val!(c12_q_bvdyn3_into_f8x2, 5, bvdyn3(anylen(192)), Bvf<u8, 2>, 8);
h_try_ref!(c12_q_bvdyn1_to_f16x2, 4, bvdyn1(anylen(64)), Bvf<u16, 2>, 16);
h_try_ref!(c12_q_bvfix_to_f128x1, 4, bvfix(anylen(128)), Bvf<u128, 1>, 128);
h_try_ref!(c12_q_bvdyn3_to_f128x1, 5, bvdyn3(anylen(192)), Bvf<u128, 1>, 128);

// =============================================================================================
// Infallible conversions into Bvd / Bv
// =============================================================================================

/// `T::from(&src)`.
macro_rules! h_from_ref {
    ($name:ident, $unw:literal, $src:expr, $T:ty, $wit:ident) => {
        harness!($name, $unw, {
            let (a, ra) = $src;
            $wit!(ra);
            let r = <$T>::from(&a).into_raw();
            check_same!(r, ra);
            assert!(a.into_raw() == ra, "C12: source modified by a by-reference conversion");
        });
    };
}

/// `T::from(src)`.
macro_rules! h_from_val {
    ($name:ident, $unw:literal, $src:expr, $T:ty, $wit:ident) => {
        harness!($name, $unw, {
            let (a, ra) = $src;
            $wit!(ra);
            let r = <$T>::from(a).into_raw();
            check_same!(r, ra);
        });
    };
}

// ---- Bvf -> Bvd: allocates ceil(len/64) words: concrete length lattice (quick) -------------------
h_from_ref!(c12_q_f8x2_to_bvd_l0, 10, f8x2(0), Bvd, wit_conc);
h_from_val!(c12_q_f8x2_into_bvd_l5, 10, f8x2(5), Bvd, wit_conc);
h_from_ref!(c12_q_f8x2_to_bvd_l16, 10, f8x2(16), Bvd, wit_conc);
h_from_val!(c12_q_f8x3_into_bvd_l17, 10, f8x3(17), Bvd, wit_conc);
h_from_ref!(c12_q_f8x3_to_bvd_l24, 10, f8x3(24), Bvd, wit_conc);
h_from_ref!(c12_q_f16x2_to_bvd_l31, 6, f16x2(31), Bvd, wit_conc);
h_from_val!(c12_q_f64x2_into_bvd_l0, 4, f64x2(0), Bvd, wit_conc);
h_from_ref!(c12_q_f64x2_to_bvd_l1, 4, f64x2(1), Bvd, wit_conc);
h_from_val!(c12_q_f64x2_into_bvd_l64, 4, f64x2(64), Bvd, wit_conc);
h_from_ref!(c12_q_f64x2_to_bvd_l65, 4, f64x2(65), Bvd, wit_conc);
h_from_val!(c12_q_f64x2_into_bvd_l127, 4, f64x2(127), Bvd, wit_conc);
h_from_ref!(c12_q_f64x2_to_bvd_l128, 4, f64x2(128), Bvd, wit_conc);
h_from_ref!(c12_q_f64x3_to_bvd_l129, 5, f64x3(129), Bvd, wit_conc);
h_from_val!(c12_q_f64x3_into_bvd_l192, 5, f64x3(192), Bvd, wit_conc);
// ... and symbolic lengths (about 10-25 s each for up to two words)
h_from_ref!(c12_q_f8x2_to_bvd, 10, f8x2(anylen(16)), Bvd, wit_any);
h_from_val!(c12_q_f8x3_into_bvd, 10, f8x3(anylen(24)), Bvd, wit_any);
h_from_val!(c12_q_f16x2_into_bvd, 6, f16x2(anylen(32)), Bvd, wit_any);
h_from_ref!(c12_q_f64x2_to_bvd, 4, f64x2(anylen(128)), Bvd, wit_any);
h_from_val!(c12_q_f64x2_into_bvd, 4, f64x2(anylen(128)), Bvd, wit_any);
// three and four words, symbolic length (thorough)
h_from_ref!(c12_q_f64x3_to_bvd, 5, f64x3(anylen(192)), Bvd, wit_any);
h_from_val!(c12_q_f64x3_into_bvd, 5, f64x3(anylen(192)), Bvd, wit_any);
h_from_ref!(c12_q_f128x2_to_bvd, 6, f128x2(anylen(256)), Bvd, wit_any);
h_from_val!(c12_q_f128x2_into_bv, 6, f128x2(anylen(256)), Bv, wit_any);
h_from_ref!(c12_q_f64x3_to_bv, 5, f64x3(anylen(192)), Bv, wit_any);

// ---- Bvf -> Bv: inline for capacities up to 128 bits (no allocation: symbolic lengths) ----------
h_from_ref!(c12_q_f8x2_to_bv, 10, f8x2(anylen(16)), Bv, wit_any);
h_from_val!(c12_q_f8x3_into_bv, 10, f8x3(anylen(24)), Bv, wit_any);
h_from_ref!(c12_q_f16x1_to_bv, 6, f16x1(anylen(16)), Bv, wit_any);
h_from_val!(c12_q_f16x2_into_bv, 6, f16x2(anylen(32)), Bv, wit_any);
h_from_ref!(c12_q_f64x2_to_bv, 4, f64x2(anylen(128)), Bv, wit_any);
h_from_val!(c12_q_f64x2_into_bv, 4, f64x2(anylen(128)), Bv, wit_any);
h_from_ref!(c12_q_f32x2_to_bv, 4, f32x2(anylen(64)), Bv, wit_any);
h_from_val!(c12_q_f128x1_into_bv, 4, f128x1(anylen(128)), Bv, wit_any);
// wider fixed types go to the heap whatever their length: length lattice
h_from_ref!(c12_q_f64x3_to_bv_l0, 5, f64x3(0), Bv, wit_conc);
h_from_val!(c12_q_f64x3_into_bv_l100, 5, f64x3(100), Bv, wit_conc);
h_from_ref!(c12_q_f64x3_to_bv_l128, 5, f64x3(128), Bv, wit_conc);
h_from_val!(c12_q_f64x3_into_bv_l129, 5, f64x3(129), Bv, wit_conc);
h_from_ref!(c12_q_f64x3_to_bv_l192, 5, f64x3(192), Bv, wit_conc);
h_from_ref!(c12_q_f128x2_to_bv_l200, 6, f128x2(200), Bv, wit_conc);
h_from_val!(c12_q_f64x3_into_bv, 5, f64x3(anylen(192)), Bv, wit_any);

// ---- Bvd -> Bvd, Bvd -> Bv (storage cloned or moved: word count concrete, length symbolic) -------
h_from_ref!(c12_q_bvd2_to_bvd, 4, bvd2(anylen(128)), Bvd, wit_any);
h_from_ref!(c12_q_bvd3_to_bvd, 5, bvd3(anylen(192)), Bvd, wit_any);
h_from_ref!(c12_q_bvd1_to_bv, 4, bvd1(anylen(64)), Bv, wit_any);
h_from_val!(c12_q_bvd2_into_bv, 4, bvd2(anylen(128)), Bv, wit_any);
h_from_ref!(c12_q_bvd3_to_bv, 5, bvd3(anylen(192)), Bv, wit_any);
h_from_val!(c12_q_bvd3_into_bv, 5, bvd3(anylen(192)), Bv, wit_any);
h_from_val!(c12_q_bvd4_into_bv, 6, bvd4(anylen(256)), Bv, wit_any);
h_from_ref!(c12_q_bvd2_to_bv, 4, bvd2(anylen(128)), Bv, wit_any);

// ---- Bv -> Bvd, Bv -> Bv ---------------------------------------------------------------------------
// heap mode: clone or move
h_from_ref!(c12_q_bvdyn2_to_bvd, 4, bvdyn2(anylen(128)), Bvd, wit_any);
h_from_val!(c12_q_bvdyn3_into_bvd, 5, bvdyn3(anylen(192)), Bvd, wit_any);
h_from_ref!(c12_q_bvdyn3_to_bv, 5, bvdyn3(anylen(192)), Bv, wit_any);
h_from_ref!(c12_q_bvfix_to_bv, 4, bvfix(anylen(128)), Bv, wit_any);
h_from_ref!(c12_q_bvdyn1_to_bv, 4, bvdyn1(anylen(64)), Bv, wit_any);
// inline mode into Bvd allocates by length: lattice, then symbolic
h_from_ref!(c12_q_bvfix_to_bvd_l0, 4, bvfix(0), Bvd, wit_conc);
h_from_val!(c12_q_bvfix_into_bvd_l1, 4, bvfix(1), Bvd, wit_conc);
h_from_ref!(c12_q_bvfix_to_bvd_l64, 4, bvfix(64), Bvd, wit_conc);
h_from_val!(c12_q_bvfix_into_bvd_l65, 4, bvfix(65), Bvd, wit_conc);
h_from_ref!(c12_q_bvfix_to_bvd_l128, 4, bvfix(128), Bvd, wit_conc);
h_from_ref!(c12_q_bvfix_to_bvd, 4, bvfix(anylen(128)), Bvd, wit_any);
h_from_val!(c12_q_bvfix_into_bvd, 4, bvfix(anylen(128)), Bvd, wit_any);

// =============================================================================================
// new(into_inner(v)) == v, structurally
// =============================================================================================

macro_rules! h_rebuild_bvf {
    ($name:ident, $src:expr) => {
        harness!($name, 2, {
            let (a, ra) = $src;
            w!(ra.len == ra.cap, "full");
            w!(ra.len == 0, "empty");
            w!(ra.len % 8 == 3 && ra.v.bit(ra.len - 1), "partial last word, top bit set");
            let _sep = nd::bool(); // keeps counterexample traces distinct from witness traces (playback dedupe)
            let (data, len) = a.into_inner();
            assert!(len == ra.len, "C12: into_inner() returned a different length");
            let b = Bvf::new(data, len);
            assert!(b.into_raw() == ra, "C12: new(into_inner(v)) differs from v");
        });
    };
}

h_rebuild_bvf!(c12_q_rebuild_f8x2, f8x2(anylen(16)));
h_rebuild_bvf!(c12_q_rebuild_f8x3, f8x3(anylen(24)));
h_rebuild_bvf!(c12_q_rebuild_f16x2, f16x2(anylen(32)));
h_rebuild_bvf!(c12_q_rebuild_f64x2, f64x2(anylen(128)));
h_rebuild_bvf!(c12_q_rebuild_f64x3, f64x3(anylen(192)));
h_rebuild_bvf!(c12_q_rebuild_f32x2, f32x2(anylen(64)));
h_rebuild_bvf!(c12_q_rebuild_fuszx2, fuszx2(anylen(128)));
h_rebuild_bvf!(c12_q_rebuild_f128x2, f128x2(anylen(256)));

macro_rules! h_rebuild_bvd {
    ($name:ident, $src:expr) => {
        harness!($name, 2, {
            let (a, ra) = $src;
            w!(ra.len == ra.cap, "full");
            w!(ra.len == 0, "empty");
            w!(ra.len + 64 <= ra.cap && ra.len % 8 == 3 && ra.v.bit(ra.len - 1), "spare word, partial last word, top bit set");
            let _sep = nd::bool(); // keeps counterexample traces distinct from witness traces (playback dedupe)
            let (data, len) = a.into_inner();
            assert!(len == ra.len && data.len() * 64 == ra.cap, "C12: into_inner() returned a different length or storage size");
            let b = Bvd::new(data, len);
            assert!(b.into_raw() == ra, "C12: new(into_inner(v)) differs from v");
        });
    };
}

h_rebuild_bvd!(c12_q_rebuild_bvd2, bvd2(anylen(128)));
h_rebuild_bvd!(c12_q_rebuild_bvd3, bvd3(anylen(192)));
h_rebuild_bvd!(c12_q_rebuild_bvd4, bvd4(anylen(256)));

// =============================================================================================
// Wide vectors (more than 1024 bits): beyond the 256-bit model value, word-by-word oracle
// =============================================================================================
// Added after seeded change C12-E (a 16-word stack buffer inside TryFrom<&Bvd> for Bvf): no scope
// of this property reached past 256 bits. Source storage is a constant-size allocation (rule R1),
// the length and all words are symbolic.

macro_rules! h_wide_try {
    ($name:ident, $unw:literal, $I:ty, $N:literal, $W:literal, $by_val:literal) => {
        harness!($name, $unw, {
            let len = nd::usize();
            nd::assume(len <= 64 * $W);
            let mut w = [0u64; $W];
            let mut i = 0;
            while i < $W {
                let rem = if len > i * 64 { len - i * 64 } else { 0 };
                w[i] = nd::u64() & crate::big::m64(rem);
                i += 1;
            }
            w!(len > 1024 && w[$W - 1] != 0, "longer than 1024 bits with a set bit in the top word");
            w!(len == 64 * $W, "full");
            w!(len == 0, "empty");
            let _sep = nd::bool(); // keeps counterexample traces distinct from witness traces (playback dedupe)
            let a = Bvd::new(Box::new(w) as Box<[u64]>, len);
            let r = if $by_val { <Bvf<$I, $N>>::try_from(a) } else { <Bvf<$I, $N>>::try_from(&a) };
            match r {
                Ok(v) => {
                    let (data, l) = v.into_inner();
                    assert!(l == len, "C12: length changed by the conversion (wide)");
                    let per = 64 / (<$I>::BITS as usize);
                    let mut j = 0;
                    while j < $N {
                        let src = w[j / per] >> ((j % per) * (<$I>::BITS as usize));
                        assert!(data[j] == src as $I, "C12: bits changed by the conversion (wide)");
                        j += 1;
                    }
                }
                Err(_) => assert!(false, "C12: conversion failed although the source fits the target capacity (wide)"),
            }
        });
    };
}
h_wide_try!(c12_q_wide_bvd17_to_f64x17, 19, u64, 17, 17, false);
h_wide_try!(c12_q_wide_bvd17_into_f64x17, 19, u64, 17, 17, true);
h_wide_try!(c12_q_wide_bvd17_to_f32x34, 36, u32, 34, 17, false);
