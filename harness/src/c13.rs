//! C13 — byte and stream serialisation is exact for both endiannesses.
//!
//! Model: a vector is `(len, value)`; its serialisation has `nb = ceil(len/8)` bytes with
//! `value == sum(byte_j << 8j)` (Little) resp. the same bytes reversed (Big). Because the
//! pre-state satisfies Inv (`value < 2^len`), "sum of *all* bits of *all* emitted bytes ==
//! value" states both "byte j carries bits 8j..8j+7" and "the unused high bits of the last
//! byte are zero". Results of `from_bytes` / `read` are inspected on their raw storage.
//!
//! Byte buffers have a concrete size per harness (cost rule 2); their contents, the
//! endianness and (for `Bvf` / inline `Bv`) the bit length are symbolic.
use crate::big::Big;
use crate::nd;
use crate::scopes::*;
use bva::{Bit, BitVector, Bv, Bvd, Bvf, ConvertionError, Endianness};
use std::io::{Read, Write};

/// Value of `bytes[..nb]` under the given byte order (loop: callers bound `nb` by unwind).
#[inline(always)]
fn value_of(bytes: &[u8], nb: usize, big: bool) -> Big {
    let mut acc = Big::ZERO;
    let mut j = 0;
    while j < nb {
        let pos = if big { nb - 1 - j } else { j };
        acc = acc.or(Big::lo(bytes[j] as u128).shl(8 * pos));
        j += 1;
    }
    acc
}

#[inline(always)]
fn is_big(e: Endianness) -> bool {
    e == Endianness::Big
}

#[inline(always)]
fn nbytes(len: usize) -> usize {
    len / 8 + (len % 8 != 0) as usize
}

/// Witness only meaningful when the length is symbolic (`sym`); dropped for concrete (`con`).
macro_rules! wk {
    (sym, $c:expr, $d:literal) => {
        w!($c, $d)
    };
    (con, $c:expr, $d:literal) => {};
}

macro_rules! sym_bytes {
    ($n:literal) => {{
        let mut b = [0u8; $n];
        let mut i = 0;
        while i < $n {
            b[i] = nd::u8();
            i += 1;
        }
        b
    }};
}

// ---------------------------------------------------------------------------------------------
// to_vec
// ---------------------------------------------------------------------------------------------
macro_rules! h_tovec {
    ($name:ident, $unw:literal, $kind:ident, $a:expr) => {
        harness!($name, $unw, {
            let (a, ra) = $a;
            let e = nd::endianness();
            let n = ra.len;
            let nb = nbytes(n);
            wk!($kind, n % 8 != 0 && ra.v.bit(n - 1), "length not a multiple of 8 with the top bit set");
            wk!($kind, n % 8 == 0 && n > 0 && is_big(e), "whole bytes, big endian");
            wk!($kind, n == 0, "empty vector");
            w!(is_big(e) && (n == 0 || ra.v.bit(n - 1)), "big endian, top bit set (or empty)");
            w!(!is_big(e) && (n == 0 || ra.v.bit(n - 1)), "little endian, top bit set (or empty)");
            let out = a.to_vec(e);
            assert!(out.len() == nb, "C13: to_vec does not emit exactly ceil(len/8) bytes");
            let got = value_of(&out[..], out.len(), is_big(e));
            assert!(got == ra.v, "C13: to_vec bytes are not the bits 8j..8j+7 (or top byte not zero padded)");
            assert!(a.into_raw() == ra, "C13: to_vec modified the vector");
        });
    };
}

// ---------------------------------------------------------------------------------------------
// write into a fixed array sink of $k bytes pre-filled with 0xA5
// ---------------------------------------------------------------------------------------------
macro_rules! h_write {
    ($name:ident, $unw:literal, $kind:ident, $a:expr, $k:literal) => {
        harness!($name, $unw, {
            let (a, ra) = $a;
            let e = nd::endianness();
            let n = ra.len;
            let nb = nbytes(n);
            assert!(nb + 1 <= $k, "HARNESS: sink smaller than the largest serialisation plus one");
            wk!($kind, n % 8 != 0 && ra.v.bit(n - 1), "length not a multiple of 8 with the top bit set");
            wk!($kind, n % 8 == 0 && n > 0 && is_big(e), "whole bytes, big endian");
            wk!($kind, n == 0, "empty vector");
            w!(is_big(e) && (n == 0 || ra.v.bit(n - 1)), "big endian, top bit set (or empty)");
            w!(!is_big(e) && (n == 0 || ra.v.bit(n - 1)), "little endian, top bit set (or empty)");
            let mut buf = [0xA5u8; $k];
            let left;
            {
                let mut wr: &mut [u8] = &mut buf[..];
                match a.write(&mut wr, e) {
                    Ok(()) => {}
                    Err(er) => {
                        std::mem::forget(er);
                        assert!(false, "C13: write into a large enough sink failed");
                    }
                }
                left = wr.len();
            }
            assert!(left == $k - nb, "C13: write does not emit exactly ceil(len/8) bytes");
            let got = value_of(&buf[..], nb, is_big(e));
            assert!(got == ra.v, "C13: written bytes are not the bits 8j..8j+7 (or top byte not zero padded)");
            assert!(buf[nb] == 0xA5 && buf[$k - 1] == 0xA5, "C13: write touched the sink beyond ceil(len/8) bytes");
            assert!(a.into_raw() == ra, "C13: write modified the vector");
        });
    };
}

// ---------------------------------------------------------------------------------------------
// from_bytes: $n symbolic bytes; capacity $cap bits (NOCAP = unbounded)
// ---------------------------------------------------------------------------------------------
macro_rules! h_frombytes {
    ($name:ident, $unw:literal, $T:ty, $n:literal, $cap:expr) => {
        harness!($name, $unw, {
            let b = sym_bytes!($n);
            let e = nd::endianness();
            let want = value_of(&b[..], $n, is_big(e));
            w!(is_big(e), "big endian");
            w!(!is_big(e) && b.last().map_or(true, |x| *x >= 0x80), "little endian, most significant bit set (or empty)");
            w!($n < 2 || (b.first() != b.last() && b.first() != Some(&0) && b.last() != Some(&0)), "first and last byte differ and are non-zero (or fewer than two bytes)");
            let r = <$T>::from_bytes(&b[..], e);
            if 8 * $n <= $cap {
                match r {
                    Ok(x) => {
                        let rr = x.into_raw();
                        assert!(rr.len == 8 * $n, "C13: from_bytes length != 8 * number of bytes");
                        assert!(rr.v == want, "C13: from_bytes storage != value of the byte string");
                        assert!(rr.len <= rr.cap, "C13: len > capacity");
                    }
                    Err(_) => assert!(false, "C13: from_bytes rejected a byte string that fits"),
                }
            } else {
                match r {
                    Ok(x) => {
                        let _ = x.into_raw();
                        assert!(false, "C13: from_bytes accepted a byte string beyond the fixed capacity");
                    }
                    Err(er) => assert!(er == ConvertionError::NotEnoughCapacity, "C13: from_bytes beyond capacity is not NotEnoughCapacity"),
                }
            }
        });
    };
}

// ---------------------------------------------------------------------------------------------
// read: reader = &[u8] of $k symbolic bytes, `len` = $len, capacity $cap bits
// ---------------------------------------------------------------------------------------------
macro_rules! h_read {
    ($name:ident, $unw:literal, $kind:ident, $T:ty, $k:literal, $len:expr, $cap:expr) => {
        harness!($name, $unw, {
            let b = sym_bytes!($k);
            let e = nd::endianness();
            let len: usize = $len;
            let nb = nbytes(len);
            w!(len > $cap || nb > $k || len % 8 == 0 || (if is_big(e) { b[0] } else { b[nb - 1] }) >> (len % 8) != 0, "surplus bits set in the most significant byte (when there is room for surplus bits)");
            wk!($kind, len <= $cap && nb <= $k && len % 8 != 0 && (if is_big(e) { b[0] } else { b[nb - 1] }) >> (len % 8) != 0, "partial top byte with surplus bits set");
            wk!($kind, len <= $cap && nb <= $k && len % 8 == 0 && len > 0, "whole number of bytes");
            wk!($kind, len <= $cap && nb < $k, "reader holds more than needed");
            wk!($kind, len == 0, "zero length");
            w!(is_big(e), "big endian");
            let mut rd: &[u8] = &b[..];
            let r = <$T>::read(&mut rd, len, e);
            let left = rd.len();
            match r {
                Ok(x) => {
                    let rr = x.into_raw();
                    assert!(len <= $cap, "C13: read returned Ok beyond the fixed capacity");
                    assert!(nb <= $k, "C13: read returned Ok on short input");
                    assert!(left == $k - nb, "C13: read did not consume exactly ceil(len/8) bytes");
                    assert!(rr.len == len, "C13: read result is not exactly len bits long");
                    assert!(rr.v == value_of(&b[..], nb, is_big(e)).trunc(len), "C13: read storage != the first ceil(len/8) bytes truncated to len bits");
                    assert!(rr.len <= rr.cap, "C13: len > capacity");
                }
                Err(er) => {
                    std::mem::forget(er);
                    assert!(len > $cap || nb > $k, "C13: read failed although the input suffices and fits");
                }
            }
        });
    };
}

/// `read` with a length no reader of this size can satisfy: must be `Err`, not a panic and
/// not `Ok`.
macro_rules! h_read_short {
    ($name:ident, $unw:literal, $T:ty, $k:literal, $len:expr) => {
        harness!($name, $unw, {
            let b = sym_bytes!($k);
            let e = nd::endianness();
            let len: usize = $len;
            assert!(len > 8 * $k, "HARNESS: length can be satisfied by the reader");
            // `attempt` decides nothing about the call; it keeps the query input-dependent so
            // that the solver reports concrete draws for the native replay.
            let attempt = nd::bool();
            // (the byte values in the witnesses only keep their recorded draws distinct from
            // those of a counterexample, which the playback output would otherwise merge)
            w!(attempt && is_big(e) && b[0] == 0xA5, "big endian");
            w!(attempt && !is_big(e) && b[0] == 0x5A, "little endian");
            let mut rd: &[u8] = &b[..];
            if attempt {
                match <$T>::read(&mut rd, len, e) {
                    Ok(x) => {
                        std::mem::forget(x);
                        assert!(false, "C13: read returned Ok on short input");
                    }
                    Err(er) => std::mem::forget(er),
                }
            }
        });
    };
}

// ---------------------------------------------------------------------------------------------
// round trips
// ---------------------------------------------------------------------------------------------
macro_rules! h_rt_stream {
    ($name:ident, $unw:literal, $kind:ident, $T:ty, $a:expr, $k:literal) => {
        harness!($name, $unw, {
            let (a, ra) = $a;
            let e = nd::endianness();
            let n = ra.len;
            let nb = nbytes(n);
            assert!(nb <= $k, "HARNESS: sink smaller than the largest serialisation");
            wk!($kind, n % 8 != 0 && ra.v.bit(n - 1), "length not a multiple of 8 with the top bit set");
            wk!($kind, n == 0, "empty vector");
            wk!($kind, n > 8 && is_big(e), "more than one byte, big endian");
            w!(is_big(e) && (n == 0 || ra.v.bit(n - 1)), "big endian, top bit set (or empty)");
            w!(!is_big(e) && (n == 0 || ra.v.bit(n - 1)), "little endian, top bit set (or empty)");
            let mut buf = [0u8; $k];
            {
                let mut wr: &mut [u8] = &mut buf[..];
                match a.write(&mut wr, e) {
                    Ok(()) => {}
                    Err(er) => {
                        std::mem::forget(er);
                        assert!(false, "C13: write into a large enough sink failed");
                    }
                }
            }
            let mut rd: &[u8] = &buf[..];
            match <$T>::read(&mut rd, n, e) {
                Ok(x) => {
                    assert!(rd.len() == $k - nb, "C13: read did not consume what write produced");
                    let rr = x.into_raw();
                    assert!(rr.len == n && rr.v == ra.v, "C13: read(write(v)) != v");
                }
                Err(er) => {
                    std::mem::forget(er);
                    assert!(false, "C13: read of a vector's own output failed");
                }
            }
            assert!(a.into_raw() == ra, "C13: write modified the vector");
        });
    };
}

macro_rules! h_rt_bytes {
    ($name:ident, $unw:literal, $kind:ident, $T:ty, $a:expr) => {
        harness!($name, $unw, {
            let (a, ra) = $a;
            let e = nd::endianness();
            let n = ra.len;
            let nb = nbytes(n);
            wk!($kind, n % 8 != 0 && ra.v.bit(n - 1), "length not a multiple of 8 with the top bit set");
            wk!($kind, n == 0, "empty vector");
            wk!($kind, n > 8 && is_big(e), "more than one byte, big endian");
            w!(is_big(e) && (n == 0 || ra.v.bit(n - 1)), "big endian, top bit set (or empty)");
            w!(!is_big(e) && (n == 0 || ra.v.bit(n - 1)), "little endian, top bit set (or empty)");
            let out = a.to_vec(e);
            match <$T>::from_bytes(&out, e) {
                Ok(x) => {
                    let rr = x.into_raw();
                    assert!(rr.len == 8 * nb, "C13: from_bytes(to_vec(v)) is not v extended to whole bytes");
                    assert!(rr.v == ra.v, "C13: from_bytes(to_vec(v)) differs in value from v");
                }
                Err(_) => assert!(false, "C13: from_bytes rejected a vector's own to_vec output"),
            }
            assert!(a.into_raw() == ra, "C13: to_vec modified the vector");
        });
    };
}

const NOCAP: usize = usize::MAX;

// ==== to_vec / write: symbolic length where the byte count stays tiny ==========================
h_tovec!(c13_q_tovec_f8x2, 4, sym, f8x2(anylen(16)));
h_write!(c13_q_write_f8x2, 4, sym, f8x2(anylen(16)), 4);
h_tovec!(c13_q_tovec_f8x3, 5, sym, f8x3(anylen(24)));
h_write!(c13_q_write_f8x3, 5, sym, f8x3(anylen(24)), 5);
h_tovec!(c13_t_tovec_f8x1, 4, sym, f8x1(anylen(8)));
h_write!(c13_t_write_f8x1, 4, sym, f8x1(anylen(8)), 3);
h_tovec!(c13_t_tovec_f16x2, 6, sym, f16x2(anylen(32)));
h_write!(c13_t_write_f16x2, 6, sym, f16x2(anylen(32)), 6);
// ==== to_vec / write: concrete length lattice, symbolic contents ================================
h_tovec!(c13_q_tovec_f16x2_l15, 4, con, f16x2(15));
h_write!(c13_q_write_f16x2_l15, 4, con, f16x2(15), 4);
h_tovec!(c13_q_tovec_f16x2_l17, 5, con, f16x2(17));
h_write!(c13_q_write_f16x2_l17, 5, con, f16x2(17), 5);
h_tovec!(c13_q_tovec_f16x2_l32, 6, con, f16x2(32));
h_write!(c13_q_write_f16x2_l32, 6, con, f16x2(32), 6);
h_tovec!(c13_t_tovec_f16x2_l0, 4, con, f16x2(0));
h_write!(c13_t_write_f16x2_l0, 4, con, f16x2(0), 2);
h_tovec!(c13_t_tovec_f16x2_l1, 4, con, f16x2(1));
h_write!(c13_t_write_f16x2_l1, 4, con, f16x2(1), 3);
h_tovec!(c13_t_tovec_f16x2_l16, 4, con, f16x2(16));
h_write!(c13_t_write_f16x2_l16, 4, con, f16x2(16), 4);
h_tovec!(c13_t_tovec_f16x2_l31, 6, con, f16x2(31));
h_write!(c13_t_write_f16x2_l31, 6, con, f16x2(31), 6);
h_tovec!(c13_q_tovec_f64x2_l0, 4, con, f64x2(0));
h_write!(c13_q_write_f64x2_l0, 4, con, f64x2(0), 2);
h_tovec!(c13_q_tovec_f64x2_l1, 4, con, f64x2(1));
h_write!(c13_q_write_f64x2_l1, 4, con, f64x2(1), 3);
h_tovec!(c13_q_tovec_f64x2_l63, 10, con, f64x2(63));
h_write!(c13_q_write_f64x2_l63, 10, con, f64x2(63), 10);
h_tovec!(c13_q_tovec_f64x2_l64, 10, con, f64x2(64));
h_write!(c13_q_write_f64x2_l64, 10, con, f64x2(64), 10);
h_tovec!(c13_q_tovec_f64x2_l65, 11, con, f64x2(65));
h_write!(c13_q_write_f64x2_l65, 11, con, f64x2(65), 11);
h_tovec!(c13_q_tovec_f64x2_l127, 18, con, f64x2(127));
h_write!(c13_q_write_f64x2_l127, 18, con, f64x2(127), 18);
h_tovec!(c13_q_tovec_f64x2_l128, 18, con, f64x2(128));
h_write!(c13_q_write_f64x2_l128, 18, con, f64x2(128), 18);
h_tovec!(c13_t_tovec_f64x2_l7, 4, con, f64x2(7));
h_write!(c13_t_write_f64x2_l7, 4, con, f64x2(7), 3);
h_tovec!(c13_t_tovec_f64x2_l8, 4, con, f64x2(8));
h_write!(c13_t_write_f64x2_l8, 4, con, f64x2(8), 3);
h_tovec!(c13_t_tovec_f64x2_l9, 4, con, f64x2(9));
h_write!(c13_t_write_f64x2_l9, 4, con, f64x2(9), 4);
h_tovec!(c13_t_tovec_f64x2_l71, 11, con, f64x2(71));
h_write!(c13_t_write_f64x2_l71, 11, con, f64x2(71), 11);
h_tovec!(c13_t_tovec_f64x2_l72, 11, con, f64x2(72));
h_write!(c13_t_write_f64x2_l72, 11, con, f64x2(72), 11);
h_tovec!(c13_t_tovec_f64x2_l73, 12, con, f64x2(73));
h_write!(c13_t_write_f64x2_l73, 12, con, f64x2(73), 12);
h_tovec!(c13_t_tovec_f64x2_l120, 17, con, f64x2(120));
h_write!(c13_t_write_f64x2_l120, 17, con, f64x2(120), 17);
h_tovec!(c13_t_tovec_f64x2_l121, 18, con, f64x2(121));
h_write!(c13_t_write_f64x2_l121, 18, con, f64x2(121), 18);
h_tovec!(c13_t_tovec_f32x2_l31, 6, con, f32x2(31));
h_write!(c13_t_write_f32x2_l31, 6, con, f32x2(31), 6);
h_tovec!(c13_t_tovec_f32x2_l33, 7, con, f32x2(33));
h_write!(c13_t_write_f32x2_l33, 7, con, f32x2(33), 7);
h_tovec!(c13_t_tovec_f32x2_l64, 10, con, f32x2(64));
h_write!(c13_t_write_f32x2_l64, 10, con, f32x2(64), 10);
h_tovec!(c13_t_tovec_fuszx2_l65, 11, con, fuszx2(65));
h_write!(c13_t_write_fuszx2_l65, 11, con, fuszx2(65), 11);
h_tovec!(c13_t_tovec_fuszx2_l128, 18, con, fuszx2(128));
h_write!(c13_t_write_fuszx2_l128, 18, con, fuszx2(128), 18);
h_tovec!(c13_t_tovec_f128x1_l77, 12, con, f128x1(77));
h_write!(c13_t_write_f128x1_l77, 12, con, f128x1(77), 12);
h_tovec!(c13_t_tovec_f128x1_l128, 18, con, f128x1(128));
h_write!(c13_t_write_f128x1_l128, 18, con, f128x1(128), 18);
h_tovec!(c13_t_tovec_f128x2_l129, 19, con, f128x2(129));
h_write!(c13_t_write_f128x2_l129, 19, con, f128x2(129), 19);
h_tovec!(c13_t_tovec_f128x2_l250, 34, con, f128x2(250));
h_write!(c13_t_write_f128x2_l250, 34, con, f128x2(250), 34);
h_tovec!(c13_t_tovec_f128x2_l256, 34, con, f128x2(256));
h_write!(c13_t_write_f128x2_l256, 34, con, f128x2(256), 34);
h_tovec!(c13_t_tovec_f64x3_l130, 19, con, f64x3(130));
h_write!(c13_t_write_f64x3_l130, 19, con, f64x3(130), 19);
h_tovec!(c13_t_tovec_f64x3_l192, 26, con, f64x3(192));
h_write!(c13_t_write_f64x3_l192, 26, con, f64x3(192), 26);
h_tovec!(c13_q_tovec_bvd3_l0, 4, con, bvd3(0));
h_write!(c13_q_write_bvd3_l0, 4, con, bvd3(0), 2);
h_tovec!(c13_q_tovec_bvd3_l1, 4, con, bvd3(1));
h_write!(c13_q_write_bvd3_l1, 4, con, bvd3(1), 3);
h_tovec!(c13_q_tovec_bvd3_l8, 4, con, bvd3(8));
h_write!(c13_q_write_bvd3_l8, 4, con, bvd3(8), 3);
h_tovec!(c13_q_tovec_bvd3_l63, 10, con, bvd3(63));
h_write!(c13_q_write_bvd3_l63, 10, con, bvd3(63), 10);
h_tovec!(c13_q_tovec_bvd3_l64, 10, con, bvd3(64));
h_write!(c13_q_write_bvd3_l64, 10, con, bvd3(64), 10);
h_tovec!(c13_q_tovec_bvd3_l65, 11, con, bvd3(65));
h_write!(c13_q_write_bvd3_l65, 11, con, bvd3(65), 11);
h_tovec!(c13_q_tovec_bvd3_l127, 18, con, bvd3(127));
h_write!(c13_q_write_bvd3_l127, 18, con, bvd3(127), 18);
h_tovec!(c13_q_tovec_bvd3_l128, 18, con, bvd3(128));
h_write!(c13_q_write_bvd3_l128, 18, con, bvd3(128), 18);
h_tovec!(c13_q_tovec_bvd3_l129, 19, con, bvd3(129));
h_write!(c13_q_write_bvd3_l129, 19, con, bvd3(129), 19);
h_tovec!(c13_q_tovec_bvd3_l192, 26, con, bvd3(192));
h_write!(c13_q_write_bvd3_l192, 26, con, bvd3(192), 26);
h_tovec!(c13_t_tovec_bvd3_l7, 4, con, bvd3(7));
h_write!(c13_t_write_bvd3_l7, 4, con, bvd3(7), 3);
h_tovec!(c13_t_tovec_bvd3_l9, 4, con, bvd3(9));
h_write!(c13_t_write_bvd3_l9, 4, con, bvd3(9), 4);
h_tovec!(c13_t_tovec_bvd3_l72, 11, con, bvd3(72));
h_write!(c13_t_write_bvd3_l72, 11, con, bvd3(72), 11);
h_tovec!(c13_t_tovec_bvd3_l121, 18, con, bvd3(121));
h_write!(c13_t_write_bvd3_l121, 18, con, bvd3(121), 18);
h_tovec!(c13_t_tovec_bvd3_l130, 19, con, bvd3(130));
h_write!(c13_t_write_bvd3_l130, 19, con, bvd3(130), 19);
h_tovec!(c13_t_tovec_bvd3_l185, 26, con, bvd3(185));
h_write!(c13_t_write_bvd3_l185, 26, con, bvd3(185), 26);
h_tovec!(c13_t_tovec_bvd3_l191, 26, con, bvd3(191));
h_write!(c13_t_write_bvd3_l191, 26, con, bvd3(191), 26);
h_tovec!(c13_t_tovec_bvd1_l0, 4, con, bvd1(0));
h_write!(c13_t_write_bvd1_l0, 4, con, bvd1(0), 2);
h_tovec!(c13_t_tovec_bvd1_l5, 4, con, bvd1(5));
h_write!(c13_t_write_bvd1_l5, 4, con, bvd1(5), 3);
h_tovec!(c13_t_tovec_bvd1_l64, 10, con, bvd1(64));
h_write!(c13_t_write_bvd1_l64, 10, con, bvd1(64), 10);
h_tovec!(c13_t_tovec_bvd2_l60, 10, con, bvd2(60));
h_write!(c13_t_write_bvd2_l60, 10, con, bvd2(60), 10);
h_tovec!(c13_t_tovec_bvd2_l128, 18, con, bvd2(128));
h_write!(c13_t_write_bvd2_l128, 18, con, bvd2(128), 18);
h_tovec!(c13_q_tovec_bvfix_l0, 4, con, bvfix(0));
h_write!(c13_q_write_bvfix_l0, 4, con, bvfix(0), 2);
h_tovec!(c13_q_tovec_bvfix_l9, 4, con, bvfix(9));
h_write!(c13_q_write_bvfix_l9, 4, con, bvfix(9), 4);
h_tovec!(c13_q_tovec_bvfix_l64, 10, con, bvfix(64));
h_write!(c13_q_write_bvfix_l64, 10, con, bvfix(64), 10);
h_tovec!(c13_q_tovec_bvfix_l65, 11, con, bvfix(65));
h_write!(c13_q_write_bvfix_l65, 11, con, bvfix(65), 11);
h_tovec!(c13_q_tovec_bvfix_l128, 18, con, bvfix(128));
h_write!(c13_q_write_bvfix_l128, 18, con, bvfix(128), 18);
h_tovec!(c13_t_tovec_bvfix_l1, 4, con, bvfix(1));
h_write!(c13_t_write_bvfix_l1, 4, con, bvfix(1), 3);
h_tovec!(c13_t_tovec_bvfix_l127, 18, con, bvfix(127));
h_write!(c13_t_write_bvfix_l127, 18, con, bvfix(127), 18);
h_tovec!(c13_q_tovec_bvdyn2_l5, 4, con, bvdyn2(5));
h_write!(c13_q_write_bvdyn2_l5, 4, con, bvdyn2(5), 3);
h_tovec!(c13_q_tovec_bvdyn2_l100, 15, con, bvdyn2(100));
h_write!(c13_q_write_bvdyn2_l100, 15, con, bvdyn2(100), 15);
h_tovec!(c13_q_tovec_bvdyn2_l128, 18, con, bvdyn2(128));
h_write!(c13_q_write_bvdyn2_l128, 18, con, bvdyn2(128), 18);
h_tovec!(c13_t_tovec_bvdyn2_l0, 4, con, bvdyn2(0));
h_write!(c13_t_write_bvdyn2_l0, 4, con, bvdyn2(0), 2);
h_tovec!(c13_t_tovec_bvdyn2_l64, 10, con, bvdyn2(64));
h_write!(c13_t_write_bvdyn2_l64, 10, con, bvdyn2(64), 10);
h_tovec!(c13_t_tovec_bvdyn2_l65, 11, con, bvdyn2(65));
h_write!(c13_t_write_bvdyn2_l65, 11, con, bvdyn2(65), 11);
h_tovec!(c13_q_tovec_bvdyn3_l129, 19, con, bvdyn3(129));
h_write!(c13_q_write_bvdyn3_l129, 19, con, bvdyn3(129), 19);
h_tovec!(c13_q_tovec_bvdyn3_l192, 26, con, bvdyn3(192));
h_write!(c13_q_write_bvdyn3_l192, 26, con, bvdyn3(192), 26);
h_tovec!(c13_t_tovec_bvdyn3_l136, 19, con, bvdyn3(136));
h_write!(c13_t_write_bvdyn3_l136, 19, con, bvdyn3(136), 19);
h_tovec!(c13_t_tovec_bvdyn3_l60, 10, con, bvdyn3(60));
h_write!(c13_t_write_bvdyn3_l60, 10, con, bvdyn3(60), 10);
// ==== from_bytes: concrete number of bytes, symbolic contents ===================================
h_frombytes!(c13_t_frombytes_f8x1_n0, 4, Bvf<u8, 1>, 0, 8);
h_frombytes!(c13_t_frombytes_f8x1_n1, 4, Bvf<u8, 1>, 1, 8);
h_frombytes!(c13_t_frombytes_f8x1_n2, 4, Bvf<u8, 1>, 2, 8);
h_frombytes!(c13_q_frombytes_f8x2_n0, 4, Bvf<u8, 2>, 0, 16);
h_frombytes!(c13_q_frombytes_f8x2_n1, 4, Bvf<u8, 2>, 1, 16);
h_frombytes!(c13_q_frombytes_f8x2_n2, 4, Bvf<u8, 2>, 2, 16);
h_frombytes!(c13_q_frombytes_f8x2_n3, 5, Bvf<u8, 2>, 3, 16);
h_frombytes!(c13_q_frombytes_f8x3_n2, 4, Bvf<u8, 3>, 2, 24);
h_frombytes!(c13_q_frombytes_f8x3_n3, 5, Bvf<u8, 3>, 3, 24);
h_frombytes!(c13_q_frombytes_f8x3_n4, 6, Bvf<u8, 3>, 4, 24);
h_frombytes!(c13_t_frombytes_f8x3_n0, 4, Bvf<u8, 3>, 0, 24);
h_frombytes!(c13_t_frombytes_f8x3_n1, 4, Bvf<u8, 3>, 1, 24);
h_frombytes!(c13_q_frombytes_f16x2_n1, 4, Bvf<u16, 2>, 1, 32);
h_frombytes!(c13_q_frombytes_f16x2_n2, 4, Bvf<u16, 2>, 2, 32);
h_frombytes!(c13_q_frombytes_f16x2_n3, 5, Bvf<u16, 2>, 3, 32);
h_frombytes!(c13_q_frombytes_f16x2_n4, 6, Bvf<u16, 2>, 4, 32);
h_frombytes!(c13_q_frombytes_f16x2_n5, 7, Bvf<u16, 2>, 5, 32);
h_frombytes!(c13_t_frombytes_f16x2_n0, 4, Bvf<u16, 2>, 0, 32);
h_frombytes!(c13_t_frombytes_f32x2_n3, 5, Bvf<u32, 2>, 3, 64);
h_frombytes!(c13_t_frombytes_f32x2_n4, 6, Bvf<u32, 2>, 4, 64);
h_frombytes!(c13_t_frombytes_f32x2_n5, 7, Bvf<u32, 2>, 5, 64);
h_frombytes!(c13_t_frombytes_f32x2_n8, 10, Bvf<u32, 2>, 8, 64);
h_frombytes!(c13_t_frombytes_f32x2_n9, 11, Bvf<u32, 2>, 9, 64);
h_frombytes!(c13_q_frombytes_f64x2_n0, 4, Bvf<u64, 2>, 0, 128);
h_frombytes!(c13_q_frombytes_f64x2_n1, 4, Bvf<u64, 2>, 1, 128);
h_frombytes!(c13_q_frombytes_f64x2_n7, 9, Bvf<u64, 2>, 7, 128);
h_frombytes!(c13_q_frombytes_f64x2_n8, 10, Bvf<u64, 2>, 8, 128);
h_frombytes!(c13_q_frombytes_f64x2_n9, 11, Bvf<u64, 2>, 9, 128);
h_frombytes!(c13_q_frombytes_f64x2_n15, 17, Bvf<u64, 2>, 15, 128);
h_frombytes!(c13_q_frombytes_f64x2_n16, 18, Bvf<u64, 2>, 16, 128);
h_frombytes!(c13_q_frombytes_f64x2_n17, 19, Bvf<u64, 2>, 17, 128);
h_frombytes!(c13_t_frombytes_fuszx2_n9, 11, Bvf<usize, 2>, 9, 128);
h_frombytes!(c13_t_frombytes_fuszx2_n16, 18, Bvf<usize, 2>, 16, 128);
h_frombytes!(c13_t_frombytes_fuszx2_n17, 19, Bvf<usize, 2>, 17, 128);
h_frombytes!(c13_t_frombytes_f128x1_n5, 7, Bvf<u128, 1>, 5, 128);
h_frombytes!(c13_t_frombytes_f128x1_n16, 18, Bvf<u128, 1>, 16, 128);
h_frombytes!(c13_t_frombytes_f128x1_n17, 19, Bvf<u128, 1>, 17, 128);
h_frombytes!(c13_t_frombytes_f128x2_n17, 19, Bvf<u128, 2>, 17, 256);
h_frombytes!(c13_t_frombytes_f128x2_n32, 34, Bvf<u128, 2>, 32, 256);
h_frombytes!(c13_t_frombytes_f64x3_n17, 19, Bvf<u64, 3>, 17, 192);
h_frombytes!(c13_t_frombytes_f64x3_n24, 26, Bvf<u64, 3>, 24, 192);
h_frombytes!(c13_t_frombytes_f64x3_n25, 27, Bvf<u64, 3>, 25, 192);
h_frombytes!(c13_q_frombytes_bvd_n0, 4, Bvd, 0, NOCAP);
h_frombytes!(c13_q_frombytes_bvd_n1, 4, Bvd, 1, NOCAP);
h_frombytes!(c13_q_frombytes_bvd_n7, 9, Bvd, 7, NOCAP);
h_frombytes!(c13_q_frombytes_bvd_n8, 10, Bvd, 8, NOCAP);
h_frombytes!(c13_q_frombytes_bvd_n9, 11, Bvd, 9, NOCAP);
h_frombytes!(c13_q_frombytes_bvd_n16, 18, Bvd, 16, NOCAP);
h_frombytes!(c13_q_frombytes_bvd_n17, 19, Bvd, 17, NOCAP);
h_frombytes!(c13_q_frombytes_bvd_n24, 26, Bvd, 24, NOCAP);
h_frombytes!(c13_t_frombytes_bvd_n15, 17, Bvd, 15, NOCAP);
h_frombytes!(c13_t_frombytes_bvd_n25, 27, Bvd, 25, NOCAP);
h_frombytes!(c13_t_frombytes_bvd_n32, 34, Bvd, 32, NOCAP);
h_frombytes!(c13_q_frombytes_bv_n0, 4, Bv, 0, NOCAP);
h_frombytes!(c13_q_frombytes_bv_n1, 4, Bv, 1, NOCAP);
h_frombytes!(c13_q_frombytes_bv_n8, 10, Bv, 8, NOCAP);
h_frombytes!(c13_q_frombytes_bv_n9, 11, Bv, 9, NOCAP);
h_frombytes!(c13_q_frombytes_bv_n16, 18, Bv, 16, NOCAP);
h_frombytes!(c13_q_frombytes_bv_n17, 19, Bv, 17, NOCAP);
h_frombytes!(c13_q_frombytes_bv_n24, 26, Bv, 24, NOCAP);
h_frombytes!(c13_t_frombytes_bv_n15, 17, Bv, 15, NOCAP);
h_frombytes!(c13_t_frombytes_bv_n25, 27, Bv, 25, NOCAP);
// ==== read: symbolic length (any usize) for the small fixed types ================================
h_read!(c13_q_read_f8x2, 5, sym, Bvf<u8, 2>, 3, nd::usize(), 16);
h_read!(c13_q_read_f8x2_short, 4, sym, Bvf<u8, 2>, 1, nd::usize(), 16);
h_read!(c13_q_read_f8x3, 6, sym, Bvf<u8, 3>, 4, nd::usize(), 24);
h_read!(c13_t_read_f8x1, 4, sym, Bvf<u8, 1>, 2, nd::usize(), 8);
h_read!(c13_t_read_f16x2, 7, sym, Bvf<u16, 2>, 5, nd::usize(), 32);
// ==== read: concrete length lattice (reader one byte longer than needed) ==========================
h_read!(c13_q_read_f16x2_l15, 5, con, Bvf<u16, 2>, 3, 15, 32);
h_read!(c13_q_read_f16x2_l17, 6, con, Bvf<u16, 2>, 4, 17, 32);
h_read!(c13_q_read_f16x2_l31, 7, con, Bvf<u16, 2>, 5, 31, 32);
h_read!(c13_t_read_f16x2_l0, 4, con, Bvf<u16, 2>, 1, 0, 32);
h_read!(c13_t_read_f16x2_l1, 4, con, Bvf<u16, 2>, 2, 1, 32);
h_read!(c13_t_read_f16x2_l16, 5, con, Bvf<u16, 2>, 3, 16, 32);
h_read!(c13_t_read_f16x2_l32, 7, con, Bvf<u16, 2>, 5, 32, 32);
h_read!(c13_q_read_f64x2_l0, 4, con, Bvf<u64, 2>, 1, 0, 128);
h_read!(c13_q_read_f64x2_l1, 4, con, Bvf<u64, 2>, 2, 1, 128);
h_read!(c13_q_read_f64x2_l57, 11, con, Bvf<u64, 2>, 9, 57, 128);
h_read!(c13_q_read_f64x2_l63, 11, con, Bvf<u64, 2>, 9, 63, 128);
h_read!(c13_q_read_f64x2_l64, 11, con, Bvf<u64, 2>, 9, 64, 128);
h_read!(c13_q_read_f64x2_l65, 12, con, Bvf<u64, 2>, 10, 65, 128);
h_read!(c13_q_read_f64x2_l121, 19, con, Bvf<u64, 2>, 17, 121, 128);
h_read!(c13_q_read_f64x2_l127, 19, con, Bvf<u64, 2>, 17, 127, 128);
h_read!(c13_q_read_f64x2_l128, 19, con, Bvf<u64, 2>, 17, 128, 128);
h_read!(c13_t_read_f64x2_l7, 4, con, Bvf<u64, 2>, 2, 7, 128);
h_read!(c13_t_read_f64x2_l8, 4, con, Bvf<u64, 2>, 2, 8, 128);
h_read!(c13_t_read_f64x2_l9, 5, con, Bvf<u64, 2>, 3, 9, 128);
h_read!(c13_t_read_f64x2_l71, 12, con, Bvf<u64, 2>, 10, 71, 128);
h_read!(c13_t_read_f64x2_l72, 12, con, Bvf<u64, 2>, 10, 72, 128);
h_read!(c13_t_read_f64x2_l73, 13, con, Bvf<u64, 2>, 11, 73, 128);
h_read!(c13_t_read_f32x2_l31, 7, con, Bvf<u32, 2>, 5, 31, 64);
h_read!(c13_t_read_f32x2_l33, 8, con, Bvf<u32, 2>, 6, 33, 64);
h_read!(c13_t_read_f32x2_l57, 11, con, Bvf<u32, 2>, 9, 57, 64);
h_read!(c13_t_read_f32x2_l64, 11, con, Bvf<u32, 2>, 9, 64, 64);
h_read!(c13_t_read_fuszx2_l63, 11, con, Bvf<usize, 2>, 9, 63, 128);
h_read!(c13_t_read_fuszx2_l65, 12, con, Bvf<usize, 2>, 10, 65, 128);
h_read!(c13_t_read_fuszx2_l127, 19, con, Bvf<usize, 2>, 17, 127, 128);
h_read!(c13_t_read_f128x1_l77, 13, con, Bvf<u128, 1>, 11, 77, 128);
h_read!(c13_t_read_f128x1_l128, 19, con, Bvf<u128, 1>, 17, 128, 128);
h_read!(c13_t_read_f128x2_l129, 20, con, Bvf<u128, 2>, 18, 129, 256);
h_read!(c13_t_read_f128x2_l250, 35, con, Bvf<u128, 2>, 33, 250, 256);
h_read!(c13_t_read_f64x3_l121, 19, con, Bvf<u64, 3>, 17, 121, 192);
h_read!(c13_t_read_f64x3_l130, 20, con, Bvf<u64, 3>, 18, 130, 192);
h_read!(c13_t_read_f64x3_l185, 27, con, Bvf<u64, 3>, 25, 185, 192);
h_read!(c13_q_read_bvd_l0, 4, con, Bvd, 1, 0, NOCAP);
h_read!(c13_q_read_bvd_l1, 4, con, Bvd, 2, 1, NOCAP);
h_read!(c13_q_read_bvd_l7, 4, con, Bvd, 2, 7, NOCAP);
h_read!(c13_q_read_bvd_l8, 4, con, Bvd, 2, 8, NOCAP);
h_read!(c13_q_read_bvd_l9, 5, con, Bvd, 3, 9, NOCAP);
h_read!(c13_q_read_bvd_l63, 11, con, Bvd, 9, 63, NOCAP);
h_read!(c13_q_read_bvd_l64, 11, con, Bvd, 9, 64, NOCAP);
h_read!(c13_q_read_bvd_l65, 12, con, Bvd, 10, 65, NOCAP);
h_read!(c13_q_read_bvd_l127, 19, con, Bvd, 17, 127, NOCAP);
h_read!(c13_q_read_bvd_l128, 19, con, Bvd, 17, 128, NOCAP);
h_read!(c13_q_read_bvd_l129, 20, con, Bvd, 18, 129, NOCAP);
h_read!(c13_t_read_bvd_l57, 11, con, Bvd, 9, 57, NOCAP);
h_read!(c13_t_read_bvd_l72, 12, con, Bvd, 10, 72, NOCAP);
h_read!(c13_t_read_bvd_l121, 19, con, Bvd, 17, 121, NOCAP);
h_read!(c13_t_read_bvd_l185, 27, con, Bvd, 25, 185, NOCAP);
h_read!(c13_t_read_bvd_l192, 27, con, Bvd, 25, 192, NOCAP);
h_read!(c13_q_read_bv_l0, 4, con, Bv, 1, 0, NOCAP);
h_read!(c13_q_read_bv_l1, 4, con, Bv, 2, 1, NOCAP);
h_read!(c13_q_read_bv_l9, 5, con, Bv, 3, 9, NOCAP);
h_read!(c13_q_read_bv_l63, 11, con, Bv, 9, 63, NOCAP);
h_read!(c13_q_read_bv_l65, 12, con, Bv, 10, 65, NOCAP);
h_read!(c13_q_read_bv_l121, 19, con, Bv, 17, 121, NOCAP);
h_read!(c13_q_read_bv_l127, 19, con, Bv, 17, 127, NOCAP);
h_read!(c13_q_read_bv_l128, 19, con, Bv, 17, 128, NOCAP);
h_read!(c13_q_read_bv_l129, 20, con, Bv, 18, 129, NOCAP);
h_read!(c13_q_read_bv_l136, 20, con, Bv, 18, 136, NOCAP);
h_read!(c13_q_read_bv_l185, 27, con, Bv, 25, 185, NOCAP);
h_read!(c13_t_read_bv_l64, 11, con, Bv, 9, 64, NOCAP);
h_read!(c13_t_read_bv_l192, 27, con, Bv, 25, 192, NOCAP);
// beyond the fixed capacity / short input at concrete lengths
h_read!(c13_q_read_f64x2_l129, 19, con, Bvf<u64, 2>, 17, 129, 128);
h_read!(c13_q_read_f64x2_l100_short, 14, con, Bvf<u64, 2>, 12, 100, 128);
h_read!(c13_t_read_f64x2_lmax, 4, con, Bvf<u64, 2>, 2, usize::MAX, 128);
h_read_short!(c13_q_readshort_bvd_l17, 5, Bvd, 2, 17);
h_read_short!(c13_q_readshort_bvd_l129, 18, Bvd, 16, 129);
h_read_short!(c13_q_readshort_bv_l129, 18, Bv, 16, 129);
h_read_short!(c13_q_readshort_bv_l100, 14, Bv, 12, 100);
// a length whose byte count cannot be represented: still "short input", must be Err
h_read_short!(c13_q_readshort_bvd_lmax_pb, 4, Bvd, 2, usize::MAX);
h_read_short!(c13_t_readshort_bv_lmax_pb, 4, Bv, 2, usize::MAX - 3);
// ==== round trips ===========================================================================
h_rt_stream!(c13_q_rtstream_f8x2, 4, sym, Bvf<u8, 2>, f8x2(anylen(16)), 3);
h_rt_bytes!(c13_q_rtbytes_f8x2, 4, sym, Bvf<u8, 2>, f8x2(anylen(16)));
h_rt_stream!(c13_t_rtstream_f8x3, 5, sym, Bvf<u8, 3>, f8x3(anylen(24)), 4);
h_rt_bytes!(c13_t_rtbytes_f8x3, 5, sym, Bvf<u8, 3>, f8x3(anylen(24)));
h_rt_stream!(c13_q_rtstream_f64x2_l65, 12, con, Bvf<u64, 2>, f64x2(65), 10);
h_rt_bytes!(c13_q_rtbytes_f64x2_l65, 12, con, Bvf<u64, 2>, f64x2(65));
h_rt_stream!(c13_q_rtstream_f64x2_l121, 19, con, Bvf<u64, 2>, f64x2(121), 17);
h_rt_bytes!(c13_q_rtbytes_f64x2_l121, 19, con, Bvf<u64, 2>, f64x2(121));
h_rt_stream!(c13_t_rtstream_f64x2_l0, 4, con, Bvf<u64, 2>, f64x2(0), 1);
h_rt_bytes!(c13_t_rtbytes_f64x2_l0, 4, con, Bvf<u64, 2>, f64x2(0));
h_rt_stream!(c13_t_rtstream_f64x2_l64, 11, con, Bvf<u64, 2>, f64x2(64), 9);
h_rt_bytes!(c13_t_rtbytes_f64x2_l64, 11, con, Bvf<u64, 2>, f64x2(64));
h_rt_stream!(c13_t_rtstream_f64x2_l128, 19, con, Bvf<u64, 2>, f64x2(128), 17);
h_rt_bytes!(c13_t_rtbytes_f64x2_l128, 19, con, Bvf<u64, 2>, f64x2(128));
h_rt_stream!(c13_q_rtstream_bvd3_l65, 12, con, Bvd, bvd3(65), 10);
h_rt_bytes!(c13_q_rtbytes_bvd3_l65, 12, con, Bvd, bvd3(65));
h_rt_stream!(c13_q_rtstream_bvd3_l121, 19, con, Bvd, bvd3(121), 17);
h_rt_bytes!(c13_q_rtbytes_bvd3_l121, 19, con, Bvd, bvd3(121));
h_rt_stream!(c13_t_rtstream_bvd3_l0, 4, con, Bvd, bvd3(0), 1);
h_rt_bytes!(c13_t_rtbytes_bvd3_l0, 4, con, Bvd, bvd3(0));
h_rt_stream!(c13_t_rtstream_bvd3_l1, 4, con, Bvd, bvd3(1), 2);
h_rt_bytes!(c13_t_rtbytes_bvd3_l1, 4, con, Bvd, bvd3(1));
h_rt_stream!(c13_t_rtstream_bvd3_l128, 19, con, Bvd, bvd3(128), 17);
h_rt_bytes!(c13_t_rtbytes_bvd3_l128, 19, con, Bvd, bvd3(128));
h_rt_stream!(c13_t_rtstream_bvd3_l129, 20, con, Bvd, bvd3(129), 18);
h_rt_bytes!(c13_t_rtbytes_bvd3_l129, 20, con, Bvd, bvd3(129));
h_rt_stream!(c13_t_rtstream_bvd3_l185, 27, con, Bvd, bvd3(185), 25);
h_rt_bytes!(c13_t_rtbytes_bvd3_l185, 27, con, Bvd, bvd3(185));
h_rt_stream!(c13_q_rtstream_bvfix_l121, 19, con, Bv, bvfix(121), 17);
h_rt_bytes!(c13_q_rtbytes_bvfix_l121, 19, con, Bv, bvfix(121));
h_rt_stream!(c13_t_rtstream_bvfix_l65, 12, con, Bv, bvfix(65), 10);
h_rt_bytes!(c13_t_rtbytes_bvfix_l65, 12, con, Bv, bvfix(65));
h_rt_stream!(c13_t_rtstream_bvfix_l128, 19, con, Bv, bvfix(128), 17);
h_rt_bytes!(c13_t_rtbytes_bvfix_l128, 19, con, Bv, bvfix(128));
h_rt_stream!(c13_q_rtstream_bvdyn3_l129, 20, con, Bv, bvdyn3(129), 18);
h_rt_bytes!(c13_q_rtbytes_bvdyn3_l129, 20, con, Bv, bvdyn3(129));
h_rt_stream!(c13_t_rtstream_bvdyn3_l100, 16, con, Bv, bvdyn3(100), 14);
h_rt_bytes!(c13_t_rtbytes_bvdyn3_l100, 16, con, Bv, bvdyn3(100));
h_rt_stream!(c13_t_rtstream_bvdyn3_l185, 27, con, Bv, bvdyn3(185), 25);
h_rt_bytes!(c13_t_rtbytes_bvdyn3_l185, 27, con, Bv, bvdyn3(185));

// ---------------------------------------------------------------------------------------------
// write() into a writer that accepts only part of a buffer per call, and into a writer that is
// too small: exactly ceil(len/8) bytes must still arrive (write_all semantics), resp. an Err.
// ---------------------------------------------------------------------------------------------
pub struct Chunky {
    pub buf: [u8; 24],
    pub pos: usize,
    pub max: usize,
    pub room: usize,
}
impl std::io::Write for Chunky {
    fn write(&mut self, b: &[u8]) -> std::io::Result<usize> {
        let mut k = if b.len() < self.max { b.len() } else { self.max };
        if k > self.room - self.pos {
            k = self.room - self.pos;
        }
        let mut i = 0;
        while i < k {
            self.buf[self.pos + i] = b[i];
            i += 1;
        }
        self.pos += k;
        Ok(k)
    }
    fn flush(&mut self) -> std::io::Result<()> {
        Ok(())
    }
}

macro_rules! h_write_chunky {
    ($name:ident, $unw:literal, $a:expr, $max:literal, $room:literal) => {
        harness!($name, $unw, {
            let (a, ra) = $a;
            let e = nd::endianness();
            let n = ra.len;
            let nb = nbytes(n);
            assert!(nb <= 24, "HARNESS: sink too small for this scope");
            let mut wr = Chunky { buf: [0xA5; 24], pos: 0, max: $max, room: $room };
            w!(n % 8 != 0 && ra.v.bit(n - 1), "length not a multiple of 8 with the top bit set");
            match a.write(&mut wr, e) {
                Ok(()) => {
                    assert!($room >= nb, "C13: write into a writer that is too small returned Ok");
                    assert!(wr.pos == nb, "C13: write through a partial writer does not emit exactly ceil(len/8) bytes");
                    assert!(value_of(&wr.buf[..], nb, is_big(e)) == ra.v, "C13: bytes that arrived through a partial writer are not the serialisation");
                }
                Err(er) => {
                    std::mem::forget(er);
                    assert!($room < nb, "C13: write failed although the writer accepts every byte eventually");
                }
            }
            assert!(a.into_raw() == ra, "C13: write modified the vector");
        });
    };
}
// 4 bytes per call, enough room
h_write_chunky!(c13_q_writechunk_bvfix_l100, 16, bvfix(100), 4, 24);
h_write_chunky!(c13_q_writechunk_bvdyn2_l70, 12, bvdyn2(70), 4, 24);
h_write_chunky!(c13_q_writechunk_f64x2_l100, 16, f64x2(100), 4, 24);
h_write_chunky!(c13_q_writechunk_bvd2_l70, 12, bvd2(70), 4, 24);
h_write_chunky!(c13_q_writechunk_f8x3_l21, 6, f8x3(21), 1, 24);
// writer too small: must be an error
h_write_chunky!(c13_q_writeshort_bvfix_l77, 13, bvfix(77), 24, 6);
h_write_chunky!(c13_q_writeshort_bvd2_l70, 12, bvd2(70), 24, 8);
h_write_chunky!(c13_t_writeshort_f8x3_l21, 6, f8x3(21), 24, 2);
