//! C13 harnesses (not written yet).
