//! C14 — text formatting matches Rust's formatting of the same unsigned integer.
//!
//! Reduction (DESIGN.md C14): every formatting impl of bva and of `core`'s unsigned integers
//! ends in exactly one call `Formatter::pad_integral(is_nonnegative, prefix, digits)` on the
//! caller's formatter (the stub also records the width, fill, alignment and flags it sees, for a
//! symbolic format specification, and both sides must see the same); `pad_integral` is a deterministic function of the
//! formatter state and these three arguments. Under Kani `pad_integral` is *stubbed* to record
//! its arguments, the harness formats the symbolic vector and the native integer of the same
//! value with the same trait, and asserts the two recordings are identical. Equality of the
//! final strings for every `#`, `+`, `0`, width, fill and alignment combination follows.
//! Natively (replay) the same harness compares complete `format!` outputs over a matrix of
//! format specifications instead.
//!
//! Two further stubs keep CBMC within memory when digit strings are built from *symbolic*
//! characters: `String::push` (asserts the character is ASCII, then pushes the byte) and
//! `String::reserve` (no-op: a capacity hint). All three are listed in the evidence.
use crate::big::{m128, Big};
use crate::nd;
use crate::scopes::*;
use bva::{Bit, BitVector, Bv, Bvd, Bvf};
use std::fmt;

pub const MAXD: usize = 136;

#[cfg(kani)]
pub mod k {
    use std::fmt;

    pub struct Rec {
        pub calls: usize,
        pub nonneg: bool,
        pub plen: usize,
        pub prefix: [u8; 2],
        pub dlen: usize,
        pub digits: [u8; super::MAXD],
        // formatter state seen by pad_integral: (width, fill, align code, plus, alternate, zero pad)
        pub opts: (Option<usize>, char, u8, bool, bool, bool),
    }

    pub static mut REC: [Rec; 2] = [
        Rec { calls: 0, nonneg: false, plen: 0, prefix: [0; 2], dlen: 0, digits: [0; super::MAXD], opts: (None, ' ', 0, false, false, false) },
        Rec { calls: 0, nonneg: false, plen: 0, prefix: [0; 2], dlen: 0, digits: [0; super::MAXD], opts: (None, ' ', 0, false, false, false) },
    ];
    pub static mut CUR: usize = 0;

    pub fn align_code(a: Option<fmt::Alignment>) -> u8 {
        match a {
            None => 0,
            Some(fmt::Alignment::Left) => 1,
            Some(fmt::Alignment::Right) => 2,
            Some(fmt::Alignment::Center) => 3,
        }
    }

    pub fn pad_integral_stub<'a>(f: &mut fmt::Formatter<'a>, is_nonnegative: bool, prefix: &str, buf: &str) -> fmt::Result
    where
        'a: 'a,
    {
        unsafe {
            let r = &mut REC[CUR];
            r.calls += 1;
            r.opts = (f.width(), f.fill(), align_code(f.align()), f.sign_plus(), f.alternate(), f.sign_aware_zero_pad());
            r.nonneg = is_nonnegative;
            let p = prefix.as_bytes();
            assert!(p.len() <= 2, "C14: prefix longer than two characters");
            r.plen = p.len();
            if p.len() > 0 {
                r.prefix[0] = p[0];
            }
            if p.len() > 1 {
                r.prefix[1] = p[1];
            }
            let d = buf.as_bytes();
            assert!(d.len() <= super::MAXD, "HARNESS: digit string longer than the recording buffer");
            r.dlen = d.len();
            let mut i = 0;
            while i < d.len() {
                r.digits[i] = d[i];
                i += 1;
            }
        }
        Ok(())
    }

    pub fn push_stub(s: &mut String, c: char) {
        assert!((c as u32) < 128, "C14: non-ASCII character in a digit string");
        unsafe { s.as_mut_vec().push(c as u8) }
    }

    pub fn reserve_stub(_s: &mut String, _additional: usize) {}

    pub struct Sink;
    impl fmt::Write for Sink {
        fn write_str(&mut self, _s: &str) -> fmt::Result {
            panic!("C14: formatter written to directly instead of through pad_integral");
        }
    }

    /// Run `fmt` of both sides with a recording `pad_integral` and compare the recordings.
    /// The caller's format specification: (width, '*' fill?, alignment 0..=3, +, #, 0).
    pub type Spec = (Option<u8>, bool, usize, bool, bool, bool);

    fn options(s: Spec) -> fmt::FormattingOptions {
        let mut o = fmt::FormattingOptions::new();
        o.width(match s.0 {
            Some(w) => Some(w as u16),
            None => None,
        });
        o.fill(if s.1 { '*' } else { ' ' });
        o.align(match s.2 {
            1 => Some(fmt::Alignment::Left),
            2 => Some(fmt::Alignment::Right),
            3 => Some(fmt::Alignment::Center),
            _ => None,
        });
        o.sign(if s.3 { Some(fmt::Sign::Plus) } else { None });
        o.alternate(s.4);
        o.sign_aware_zero_pad(s.5);
        o
    }

    pub fn same_pad_integral_call(
        spec: Spec,
        a: &dyn Fn(&mut fmt::Formatter<'_>) -> fmt::Result,
        b: &dyn Fn(&mut fmt::Formatter<'_>) -> fmt::Result,
    ) {
        unsafe {
            let mut sink = Sink;
            CUR = 0;
            {
                let mut f = fmt::Formatter::new(&mut sink, options(spec));
                assert!(a(&mut f).is_ok(), "C14: formatting the bit vector returned an error");
            }
            CUR = 1;
            {
                let mut f = fmt::Formatter::new(&mut sink, options(spec));
                assert!(b(&mut f).is_ok(), "HARNESS: formatting the native integer returned an error");
            }
            let (x, y) = (&REC[0], &REC[1]);
            assert!(x.calls == 1, "C14: pad_integral not called exactly once");
            assert!(y.calls == 1, "HARNESS: core did not call pad_integral exactly once");
            assert!(x.opts == y.opts, "C14: pad_integral saw a different formatter state (width/fill/alignment/flags) than for the native integer: the caller's format specification was not passed through");
            assert!(x.nonneg == y.nonneg, "C14: sign flag differs from the native integer's");
            assert!(x.plen == y.plen && x.prefix[0] == y.prefix[0] && x.prefix[1] == y.prefix[1], "C14: prefix differs from the native integer's");
            assert!(x.dlen == y.dlen, "C14: number of digits differs from the native integer's");
            let mut i = 0;
            while i < x.dlen {
                assert!(x.digits[i] == y.digits[i], "C14: digit differs from the native integer's");
                i += 1;
            }
        }
    }
}

/// The format specifications compared natively (replay): every flag, width, fill, alignment.
#[cfg(not(kani))]
macro_rules! native_matrix {
    ($t:literal, $v:expr, $x:expr) => {
        assert_eq!(format!(concat!("{:", $t, "}"), $v), format!(concat!("{:", $t, "}"), $x), "C14: plain");
        assert_eq!(format!(concat!("{:#", $t, "}"), $v), format!(concat!("{:#", $t, "}"), $x), "C14: alternate");
        assert_eq!(format!(concat!("{:+", $t, "}"), $v), format!(concat!("{:+", $t, "}"), $x), "C14: plus");
        assert_eq!(format!(concat!("{:012", $t, "}"), $v), format!(concat!("{:012", $t, "}"), $x), "C14: zero pad");
        assert_eq!(format!(concat!("{:#012", $t, "}"), $v), format!(concat!("{:#012", $t, "}"), $x), "C14: alternate zero pad");
        assert_eq!(format!(concat!("{:>9", $t, "}"), $v), format!(concat!("{:>9", $t, "}"), $x), "C14: right");
        assert_eq!(format!(concat!("{:*<11", $t, "}"), $v), format!(concat!("{:*<11", $t, "}"), $x), "C14: fill left");
        assert_eq!(format!(concat!("{:_^+#14", $t, "}"), $v), format!(concat!("{:_^+#14", $t, "}"), $x), "C14: everything");
    };
}

/// One formatting trait of one vector type at one *concrete* length (the digit buffers are
/// allocated by length), contents symbolic; oracle = `core`'s formatting of `$nat`.
macro_rules! h_fmt {
    ($name:ident, $unw:literal, $trait:ident, $spec:literal, $a:expr, $nat:ty) => {
        #[cfg_attr(kani, kani::proof)]
        #[cfg_attr(kani, kani::unwind($unw))]
        #[cfg_attr(kani, kani::stub(core::fmt::Formatter::pad_integral, k::pad_integral_stub))]
        #[cfg_attr(kani, kani::stub(alloc::string::String::push, k::push_stub))]
        #[cfg_attr(kani, kani::stub(alloc::string::String::reserve, k::reserve_stub))]
        #[cfg_attr(kani, kani::stub(<[u64]>::copy_from_slice, crate::copy_from_slice_model))]
        pub fn $name() {
            let (a, ra) = $a;
            nd::assume(ra.v.fits(<$nat>::BITS as usize));
            let x = ra.v.lo as $nat;
            w!(ra.len == 0 || ra.v.bit(ra.len - 1), "empty, or top bit set (no leading zero digit)");
            w!(ra.v.is_zero(), "value zero");
            w!(ra.len < 8 || (!ra.v.is_zero() && ra.v.sig() + 4 < ra.len), "short, or at least one leading zero nibble");
            // the caller's format specification (any width, either fill, any alignment, any flags)
            let spec = (if nd::bool() { Some(nd::u8()) } else { None }, nd::bool(), nd::upto(3), nd::bool(), nd::bool(), nd::bool());
            w!(spec.0.is_some() && spec.3 && spec.4, "width, + and # all given");
            #[cfg(kani)]
            k::same_pad_integral_call(spec, &|f| fmt::$trait::fmt(&a, f), &|f| fmt::$trait::fmt(&x, f));
            #[cfg(not(kani))]
            {
                native_matrix!($spec, a, x);
            }
        }
    };
}

// ---- Bvf<u8,2>: binary, octal, both hex cases ----------------------------------------------
h_fmt!(c14_q_bin_f8x2_l0, 3, Binary, "b", f8x2(0), u16);
h_fmt!(c14_q_bin_f8x2_l1, 4, Binary, "b", f8x2(1), u16);
h_fmt!(c14_q_bin_f8x2_l9, 12, Binary, "b", f8x2(9), u16);
h_fmt!(c14_q_bin_f8x2_l13, 16, Binary, "b", f8x2(13), u16);
h_fmt!(c14_q_bin_f8x2_l16, 19, Binary, "b", f8x2(16), u16);
h_fmt!(c14_q_oct_f8x2_l0, 3, Octal, "o", f8x2(0), u16);
h_fmt!(c14_q_oct_f8x2_l8, 8, Octal, "o", f8x2(8), u16);
h_fmt!(c14_q_oct_f8x2_l13, 8, Octal, "o", f8x2(13), u16);
h_fmt!(c14_q_oct_f8x2_l16, 9, Octal, "o", f8x2(16), u16);
h_fmt!(c14_q_lhex_f8x2_l0, 3, LowerHex, "x", f8x2(0), u16);
h_fmt!(c14_q_lhex_f8x2_l5, 5, LowerHex, "x", f8x2(5), u16);
h_fmt!(c14_q_lhex_f8x2_l13, 7, LowerHex, "x", f8x2(13), u16);
h_fmt!(c14_q_lhex_f8x2_l16, 7, LowerHex, "x", f8x2(16), u16);
h_fmt!(c14_q_uhex_f8x2_l9, 6, UpperHex, "X", f8x2(9), u16);
h_fmt!(c14_q_uhex_f8x2_l16, 7, UpperHex, "X", f8x2(16), u16);
// remaining lengths: thorough
h_fmt!(c14_t_bin_f8x2_l2, 5, Binary, "b", f8x2(2), u16);
h_fmt!(c14_t_bin_f8x2_l7, 10, Binary, "b", f8x2(7), u16);
h_fmt!(c14_t_bin_f8x2_l8, 11, Binary, "b", f8x2(8), u16);
h_fmt!(c14_t_bin_f8x2_l15, 18, Binary, "b", f8x2(15), u16);
h_fmt!(c14_t_oct_f8x2_l1, 4, Octal, "o", f8x2(1), u16);
h_fmt!(c14_t_oct_f8x2_l3, 5, Octal, "o", f8x2(3), u16);
h_fmt!(c14_t_oct_f8x2_l9, 8, Octal, "o", f8x2(9), u16);
h_fmt!(c14_t_oct_f8x2_l15, 9, Octal, "o", f8x2(15), u16);
h_fmt!(c14_t_lhex_f8x2_l1, 4, LowerHex, "x", f8x2(1), u16);
h_fmt!(c14_t_lhex_f8x2_l4, 4, LowerHex, "x", f8x2(4), u16);
h_fmt!(c14_t_lhex_f8x2_l8, 5, LowerHex, "x", f8x2(8), u16);
h_fmt!(c14_t_lhex_f8x2_l9, 6, LowerHex, "x", f8x2(9), u16);
h_fmt!(c14_t_lhex_f8x2_l12, 6, LowerHex, "x", f8x2(12), u16);
h_fmt!(c14_t_uhex_f8x2_l1, 4, UpperHex, "X", f8x2(1), u16);
h_fmt!(c14_t_uhex_f8x2_l13, 7, UpperHex, "X", f8x2(13), u16);
// other word types / N
h_fmt!(c14_q_lhex_f16x2_l17, 8, LowerHex, "x", f16x2(17), u32);
h_fmt!(c14_q_bin_f16x2_l17, 20, Binary, "b", f16x2(17), u32);
h_fmt!(c14_t_oct_f16x2_l32, 14, Octal, "o", f16x2(32), u32);
h_fmt!(c14_t_uhex_f16x2_l32, 11, UpperHex, "X", f16x2(32), u32);
h_fmt!(c14_t_lhex_f8x3_l24, 9, LowerHex, "x", f8x3(24), u32);
h_fmt!(c14_t_bin_f8x3_l20, 23, Binary, "b", f8x3(20), u32);

// ---- 64-bit words: Bvf<u64,2>, Bv (both modes), Bvd, across the word boundary ----------------
h_fmt!(c14_q_lhex_f64x2_l65, 20, LowerHex, "x", f64x2(65), u128);
h_fmt!(c14_q_lhex_f64x2_l128, 35, LowerHex, "x", f64x2(128), u128);
h_fmt!(c14_q_uhex_bvd2_l70, 21, UpperHex, "X", bvd2(70), u128);
h_fmt!(c14_t_lhex_bvdyn2_l64, 19, LowerHex, "x", bvdyn2(64), u128);
h_fmt!(c14_q_lhex_bvdyn1_l20, 8, LowerHex, "x", bvdyn1(20), u64);
h_fmt!(c14_q_uhex_bvfix_l100, 28, UpperHex, "X", bvfix(100), u128);
h_fmt!(c14_t_oct_f64x2_l66, 25, Octal, "o", f64x2(66), u128);
h_fmt!(c14_t_bin_f64x2_l66, 69, Binary, "b", f64x2(66), u128);
h_fmt!(c14_t_lhex_bvd3_l70_spare, 21, LowerHex, "x", bvd3(70), u128);
h_fmt!(c14_t_oct_bvd2_l70, 27, Octal, "o", bvd2(70), u128);
h_fmt!(c14_t_bin_bvd2_l65, 68, Binary, "b", bvd2(65), u128);
h_fmt!(c14_t_bin_bvfix_l128, 131, Binary, "b", bvfix(128), u128);

// ---- decimal: repeated division by ten (each div_rem costs minutes) ---------------------------
// values below ten: one digit, div_rem returns early (divisor has more significant bits); the
// (unreachable) division loop is cut by the small unwind bound and its unwinding assertion
h_fmt!(c14_q_dec_bvfix_l3, 4, Display, "", bvfix(3), u64);
h_fmt!(c14_q_dec_bvdyn1_l3, 9, Display, "", bvdyn1(3), u64);
h_fmt!(c14_t_dec_f8x1_l3, 6, Display, "", f8x1(3), u8);

// ---- end-to-end: the real `pad_integral`, default format specification -----------------------
// No stub on `pad_integral`: the bytes written to the sink by `{:x}` etc. of the vector and of
// the native integer must be identical. This does not rely on *how* the implementation
// produces its output (it may call the formatting machinery several times), at the price of a
// fixed (default) format specification.
pub struct ByteSink {
    pub buf: [u8; 48],
    pub n: usize,
}
impl fmt::Write for ByteSink {
    fn write_str(&mut self, s: &str) -> fmt::Result {
        let b = s.as_bytes();
        let mut i = 0;
        while i < b.len() {
            if self.n < 48 {
                self.buf[self.n] = b[i];
            }
            self.n += 1;
            i += 1;
        }
        Ok(())
    }
}

macro_rules! h_fmt_e2e {
    ($name:ident, $unw:literal, $spec:literal, $a:expr, $nat:ty) => {
        #[cfg_attr(kani, kani::proof)]
        #[cfg_attr(kani, kani::unwind($unw))]
        #[cfg_attr(kani, kani::stub(alloc::string::String::push, k::push_stub))]
        #[cfg_attr(kani, kani::stub(alloc::string::String::reserve, k::reserve_stub))]
        pub fn $name() {
            use std::fmt::Write;
            let (a, ra) = $a;
            nd::assume(ra.v.fits(<$nat>::BITS as usize));
            let x = ra.v.lo as $nat;
            w!(ra.v.limb(0) == 0 && !ra.v.is_zero(), "low 64-bit word zero below a non-zero word");
            w!(ra.v.is_zero(), "value zero");
            let mut s1 = ByteSink { buf: [0; 48], n: 0 };
            let mut s2 = ByteSink { buf: [0; 48], n: 0 };
            assert!(write!(s1, $spec, a).is_ok(), "C14: formatting the bit vector returned an error");
            assert!(write!(s2, $spec, x).is_ok(), "HARNESS: formatting the native integer returned an error");
            assert!(s1.n == s2.n && s1.n <= 48, "C14: output length differs from the native integer's");
            let mut i = 0;
            while i < s1.n {
                assert!(s1.buf[i] == s2.buf[i], "C14: output differs from the native integer's");
                i += 1;
            }
        }
    };
}
h_fmt_e2e!(c14_t_e2e_lhex_bvd2_l70, 21, "{:x}", bvd2(70), u128);
h_fmt_e2e!(c14_q_e2e_uhex_bvdyn2_l70, 21, "{:#X}", bvdyn2(70), u128);
h_fmt_e2e!(c14_t_e2e_lhex_f64x2_l70, 21, "{:x}", f64x2(70), u128);
