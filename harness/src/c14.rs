//! C14 harnesses (not written yet).
