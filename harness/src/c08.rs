//! C08 harnesses (not written yet).
