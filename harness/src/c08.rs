//! C08 — slicing and splitting partition the bits without loss or reordering.
//!
//! Model: a vector is `(len, value)`. `copy_range(s..e)` = `(e-s, (v >> s) mod 2^(e-s))`,
//! `split_off(i)` / `split(i)` = low `(i, v mod 2^i)` and high `(len-i, v >> i)`, and
//! appending the high part to the low part gives back `(len, v)`. All results are compared
//! on their raw storage (padding and spare words included), so bits copied beyond `e` or a
//! wrong length cannot hide.
use crate::big::Big;
use crate::nd;
use crate::scopes::*;
use bva::{Bit, BitVector, Bv, Bvd, Bvf};

#[inline(always)]
fn bit_of(b: bool) -> Bit {
    if b {
        Bit::One
    } else {
        Bit::Zero
    }
}


/// Replacement for `<[T]>::copy_from_slice` under Kani: CBMC 6.11 mis-models a `memcpy` of
/// symbolic size over elements wider than one byte (minimal probe: `dst[..n].copy_from_slice(
/// &src[..n])` on `[u64; 2]` with symbolic `n` "fails" `dst[0] == src[0]`), which gives
/// spurious, natively non-reproducing counterexamples in the word-aligned arm of
/// `Bvf::copy_range`. Element-wise copy with the same panic condition.
#[cfg(kani)]
pub fn copy_from_slice_model<T: Copy>(dst: &mut [T], src: &[T]) {
    assert!(dst.len() == src.len(), "copy_from_slice: source and destination lengths differ");
    let mut i = 0;
    while i < dst.len() {
        dst[i] = src[i];
        i += 1;
    }
}

/// `harness!` plus the `copy_from_slice` stub (the stub replaces the generic function, i.e.
/// every element type).
macro_rules! harness_cfs {
    ($name:ident, $unw:literal, $body:block) => {
        #[cfg_attr(kani, kani::proof)]
        #[cfg_attr(kani, kani::unwind($unw))]
        #[cfg_attr(kani, kani::stub(<[u64]>::copy_from_slice, copy_from_slice_model))]
        pub fn $name() $body
    };
}

// ---- copy_range ---------------------------------------------------------------------------

/// Cheap sources (`Bvf`, `Bv::Fixed`): length, range and contents all symbolic.
/// `$wb` = word size in bits (for the word-boundary witnesses).
macro_rules! h_copy_range {
    ($name:ident, $unw:literal, $a:expr, $wb:literal) => {
        harness_cfs!($name, $unw, {
            let (a, ra) = $a;
            let n = ra.len;
            let e = nd::upto(n);
            let s = nd::upto(e);
            w!(s == n && n > 0, "empty range at s = e = len of a non-empty vector");
            w!(s == 0 && e == n && n == ra.cap, "whole vector at full capacity");
            w!((ra.cap == $wb && s == $wb) || (s > 0 && s % $wb == 0 && e > s && e % $wb != 0), "start on a word boundary, end inside a word (one-word vectors: empty slice at full capacity)");
            w!((ra.cap == $wb && s % $wb != 0 && e == $wb) || (s % $wb != 0 && e % $wb == 0 && e > s + $wb), "end on a word boundary, start inside an earlier word (one-word vectors: inside the word)");
            w!(e < n && ra.v.bit(e) && e > s, "source bit just above the range is set");
            let r = a.copy_range(s..e).into_raw();
            assert!(r.len == e - s, "C08: copy_range length != e - s");
            assert!(r.v == ra.v.shr(s).trunc(e - s), "C08: copy_range storage != (v >> s) mod 2^(e-s)");
            assert!(r.len <= r.cap, "C08: len > capacity");
            assert!(a.into_raw() == ra, "C08: copy_range modified its source");
        });
    };
}

/// Heap sources (`Bvd`, `Bv::Dynamic`): the slice is allocated by `e - s`, and CBMC only
/// copes with allocation sizes that are syntactically constant, so `s` and `e` are concrete
/// (a lattice around the 64-bit word boundaries and the inline limit); the source length
/// (`e..=max`, i.e. with and without bits and spare words above the range) and all contents
/// are symbolic.
macro_rules! h_copy_range_se {
    ($name:ident, $unw:literal, $gen:ident, $max:literal, $s:literal, $e:literal) => {
        harness!($name, $unw, {
            let (a, ra) = $gen(anylen($max));
            let n = ra.len;
            nd::assume(n >= $e);
            w!(n == $e, "range ends at len");
            w!($e == $max || (n > $e && ra.v.bit($e)), "source bit just above the range is set (unless the range ends at the storage end)");
            w!($e == $s || ra.v.bit(($e as usize).wrapping_sub(1)), "top bit of the range set (unless the range is empty)");
            w!($e + 64 > $max || ra.cap >= n + 64, "source has a spare word (unless the range ends in the last storage word)");
            let r = a.copy_range($s..$e);
            let r = r.into_raw();
            assert!(r.len == $e - $s, "C08: copy_range length != e - s");
            assert!(r.v == ra.v.shr($s).trunc($e - $s), "C08: copy_range storage != (v >> s) mod 2^(e-s)");
            assert!(r.len <= r.cap, "C08: len > capacity");
            assert!(a.into_raw() == ra, "C08: copy_range modified its source");
        });
    };
}

/// `Bv` in heap mode: additionally records the storage mode of the slice (a slice of at most
/// 128 bits is demoted to inline storage; the bits must be the same either way).
macro_rules! h_copy_range_bv_se {
    ($name:ident, $unw:literal, $gen:ident, $max:literal, $s:literal, $e:literal) => {
        harness!($name, $unw, {
            let (a, ra) = $gen(anylen($max));
            let n = ra.len;
            nd::assume(n >= $e);
            w!(n == $e, "range ends at len");
            w!($e == $max || (n > $e && ra.v.bit($e)), "source bit just above the range is set (unless the range ends at the storage end)");
            w!($e > 128 || n <= 128, "heap source short enough for inline storage (when the range allows)");
            w!($max <= 128 || $e == $max || n > 128, "source longer than the inline limit (when the storage and the range allow)");
            let r = a.copy_range($s..$e);
            w!(is_fixed(&r) == ($e - $s <= 128), "slice is inline exactly when it fits in 128 bits");
            let r = r.into_raw();
            assert!(r.len == $e - $s, "C08: copy_range length != e - s");
            assert!(r.v == ra.v.shr($s).trunc($e - $s), "C08: copy_range storage != (v >> s) mod 2^(e-s)");
            assert!(r.len <= r.cap, "C08: len > capacity");
            assert!(a.into_raw() == ra, "C08: copy_range modified its source");
        });
    };
}

// ---- split_off / split --------------------------------------------------------------------

/// Cheap types: split point, length, contents symbolic; both `split_off` and `split`, and
/// the reconstruction `low.append(&high) == original` executed on the real `append`.
macro_rules! h_split {
    ($name:ident, $unw:literal, $a:expr, $wb:literal) => {
        harness_cfs!($name, $unw, {
            let (a, ra) = $a;
            let n = ra.len;
            let i = nd::upto(n);
            w!(i == n && n > 0, "split at i = len");
            w!(i == 0 && n > 0, "split at i = 0");
            w!((ra.cap == $wb && i == $wb) || (i > 0 && i < n && i % $wb == 0), "split on a word boundary (one-word vectors: at full capacity)");
            w!((ra.cap == $wb && i % $wb != 0 && n == $wb) || (i % $wb != 0 && n > i + $wb), "split inside a word with more than a word above (one-word vectors: full vector)");
            let mut lo = a.clone();
            let hi = lo.split_off(i);
            let (hi2, lo2) = a.clone().split(i);
            let rlo = lo.clone().into_raw();
            let rhi = hi.clone().into_raw();
            assert!(rlo.len == i && rlo.v == ra.v.trunc(i), "C08: split_off: low part != (i, v mod 2^i)");
            assert!(rhi.len == n - i && rhi.v == ra.v.shr(i), "C08: split_off: high part != (len-i, v >> i)");
            assert!(rlo.len <= rlo.cap && rhi.len <= rhi.cap, "C08: len > capacity");
            assert!(lo2.into_raw() == rlo, "C08: split: low part differs from split_off");
            assert!(hi2.into_raw() == rhi, "C08: split: high part differs from split_off");
            lo.append(&hi);
            assert!(lo.into_raw() == ra, "C08: low.append(high) does not reconstruct the original");
            assert!(a.into_raw() == ra, "C08: source of the clones modified");
        });
    };
}

/// Heap types: `split_off(i)` allocates the high part by `len - i`; both are concrete
/// (see `h_copy_range_se`), the contents are symbolic. `$gen` fixes the number of allocated
/// words, so short lengths come with spare words.
macro_rules! h_split_off_ni {
    ($name:ident, $unw:literal, $gen:ident, $n:literal, $i:literal) => {
        harness!($name, $unw, {
            let (mut a, ra) = $gen($n);
            w!($n == 0 || ra.v.bit(($n as usize).wrapping_sub(1)), "top bit set (unless empty)");
            w!($i == 0 || $i == $n || (ra.v.bit($i) != ra.v.bit(($i as usize).wrapping_sub(1))), "bits on both sides of the split point differ (unless a part is empty)");
            let hi = a.split_off($i);
            let hi = hi.into_raw();
            let lo = a.into_raw();
            assert!(lo.len == $i && lo.v == ra.v.trunc($i), "C08: split_off: low part != (i, v mod 2^i)");
            assert!(hi.len == $n - $i && hi.v == ra.v.shr($i), "C08: split_off: high part != (len-i, v >> i)");
            assert!(lo.len <= lo.cap && hi.len <= hi.cap, "C08: len > capacity");
        });
    };
}

macro_rules! h_split_ni {
    ($name:ident, $unw:literal, $gen:ident, $n:literal, $i:literal) => {
        harness!($name, $unw, {
            let (a, ra) = $gen($n);
            w!($n == 0 || ra.v.bit(($n as usize).wrapping_sub(1)), "top bit set (unless empty)");
            w!($i == 0 || $i == $n || (ra.v.bit($i) != ra.v.bit(($i as usize).wrapping_sub(1))), "bits on both sides of the split point differ (unless a part is empty)");
            let (hi, lo) = a.split($i);
            let hi = hi.into_raw();
            let lo = lo.into_raw();
            assert!(lo.len == $i && lo.v == ra.v.trunc($i), "C08: split: low part != (i, v mod 2^i)");
            assert!(hi.len == $n - $i && hi.v == ra.v.shr($i), "C08: split: high part != (len-i, v >> i)");
            assert!(lo.len <= lo.cap && hi.len <= hi.cap, "C08: len > capacity");
        });
    };
}

/// Heap types: reconstruction executed on the real `append` (the low part keeps the
/// source's words, so appending the high part back does not reallocate).
macro_rules! h_rejoin_ni {
    ($name:ident, $unw:literal, $gen:ident, $n:literal, $i:literal) => {
        harness!($name, $unw, {
            let (mut a, ra) = $gen($n);
            w!($n == 0 || ra.v.bit(($n as usize).wrapping_sub(1)), "top bit set (unless empty)");
            w!($n == 0 || !ra.v.bit(($n as usize).wrapping_sub(1)), "top bit clear (unless empty)");
            let hi = a.split_off($i);
            a.append(&hi);
            let r = a.into_raw();
            assert!(r.len == ra.len && r.v == ra.v, "C08: low.append(high) does not reconstruct the original");
            assert!(r.len <= r.cap, "C08: len > capacity");
        });
    };
}

// ---- first / last -------------------------------------------------------------------------

macro_rules! h_first_last {
    ($name:ident, $unw:literal, $a:expr) => {
        harness!($name, $unw, {
            let (a, ra) = $a;
            let n = ra.len;
            w!(n == 0, "empty vector");
            w!(n == 1, "single bit: first and last coincide");
            w!(n > 1 && ra.v.bit(0) != ra.v.bit(n - 1), "first and last differ");
            w!(n == ra.cap && n > 0, "last bit is the top storage bit");
            let f = a.first();
            let l = a.last();
            if n == 0 {
                assert!(f.is_none() && l.is_none(), "C08: first/last of an empty vector is not None");
            } else {
                assert!(f == Some(bit_of(ra.v.bit(0))), "C08: first() != bit 0");
                assert!(l == Some(bit_of(ra.v.bit(n - 1))), "C08: last() != bit len-1");
            }
            assert!(a.into_raw() == ra, "C08: first/last modified the vector");
        });
    };
}

// ---- Bvf and Bv inline: length, range / split point and contents all symbolic ---------------
h_copy_range!(c08_q_range_f8x2, 4, f8x2(anylen(16)), 8);
h_copy_range!(c08_q_range_f8x3, 5, f8x3(anylen(24)), 8);
h_copy_range!(c08_q_range_f16x2, 4, f16x2(anylen(32)), 16);
h_copy_range!(c08_q_range_f64x2, 4, f64x2(anylen(128)), 64);
h_copy_range!(c08_q_range_bvfix, 4, bvfix(anylen(128)), 64);
h_copy_range!(c08_t_range_f8x4, 6, f8x4(anylen(32)), 8);
h_copy_range!(c08_t_range_f32x2, 4, f32x2(anylen(64)), 32);
h_copy_range!(c08_t_range_f64x3, 5, f64x3(anylen(192)), 64);
h_copy_range!(c08_t_range_fuszx2, 4, fuszx2(anylen(128)), 64);
h_copy_range!(c08_t_range_f128x2, 4, f128x2(anylen(256)), 128);

h_split!(c08_q_split_f8x2, 6, f8x2(anylen(16)), 8);
h_split!(c08_q_split_f8x3, 7, f8x3(anylen(24)), 8);
h_split!(c08_q_split_f16x2, 7, f16x2(anylen(32)), 16);
h_split!(c08_t_split_f64x2, 19, f64x2(anylen(128)), 64);

h_first_last!(c08_q_firstlast_f8x2, 3, f8x2(anylen(16)));
h_first_last!(c08_q_firstlast_f8x3, 3, f8x3(anylen(24)));
h_first_last!(c08_q_firstlast_f16x2, 3, f16x2(anylen(32)));
h_first_last!(c08_q_firstlast_f64x2, 3, f64x2(anylen(128)));
h_first_last!(c08_q_firstlast_bvd2, 3, bvd2(anylen(128)));
h_first_last!(c08_q_firstlast_bvd3, 3, bvd3(anylen(192)));
h_first_last!(c08_q_firstlast_bvfix, 3, bvfix(anylen(128)));
h_first_last!(c08_q_firstlast_bvdyn3, 3, bvdyn3(anylen(192)));
h_first_last!(c08_t_firstlast_f128x2, 3, f128x2(anylen(256)));
h_first_last!(c08_t_firstlast_bvd1, 3, bvd1(anylen(64)));
h_first_last!(c08_t_firstlast_bvd4, 3, bvd4(anylen(256)));

// ---- Bvd: concrete range lattice, symbolic source length and contents ----------------------
h_copy_range_se!(c08_q_range_bvd3_s0_e0, 5, bvd3, 192, 0, 0);
h_copy_range_se!(c08_q_range_bvd3_s0_e1, 5, bvd3, 192, 0, 1);
h_copy_range_se!(c08_q_range_bvd3_s0_e64, 5, bvd3, 192, 0, 64);
h_copy_range_se!(c08_q_range_bvd3_s0_e65, 5, bvd3, 192, 0, 65);
h_copy_range_se!(c08_q_range_bvd3_s0_e192, 5, bvd3, 192, 0, 192);
h_copy_range_se!(c08_q_range_bvd3_s1_e64, 5, bvd3, 192, 1, 64);
h_copy_range_se!(c08_q_range_bvd3_s1_e65, 5, bvd3, 192, 1, 65);
h_copy_range_se!(c08_q_range_bvd3_s5_e133, 5, bvd3, 192, 5, 133);
h_copy_range_se!(c08_q_range_bvd3_s63_e64, 5, bvd3, 192, 63, 64);
h_copy_range_se!(c08_q_range_bvd3_s63_e65, 5, bvd3, 192, 63, 65);
h_copy_range_se!(c08_q_range_bvd3_s63_e128, 5, bvd3, 192, 63, 128);
h_copy_range_se!(c08_q_range_bvd3_s64_e64, 5, bvd3, 192, 64, 64);
h_copy_range_se!(c08_q_range_bvd3_s64_e65, 5, bvd3, 192, 64, 65);
h_copy_range_se!(c08_q_range_bvd3_s64_e128, 5, bvd3, 192, 64, 128);
h_copy_range_se!(c08_q_range_bvd3_s64_e129, 5, bvd3, 192, 64, 129);
h_copy_range_se!(c08_q_range_bvd3_s64_e192, 5, bvd3, 192, 64, 192);
h_copy_range_se!(c08_q_range_bvd3_s65_e129, 5, bvd3, 192, 65, 129);
h_copy_range_se!(c08_q_range_bvd3_s100_e192, 5, bvd3, 192, 100, 192);
h_copy_range_se!(c08_q_range_bvd3_s127_e129, 5, bvd3, 192, 127, 129);
h_copy_range_se!(c08_q_range_bvd3_s128_e128, 5, bvd3, 192, 128, 128);
h_copy_range_se!(c08_q_range_bvd3_s128_e192, 5, bvd3, 192, 128, 192);
h_copy_range_se!(c08_q_range_bvd3_s129_e192, 5, bvd3, 192, 129, 192);
h_copy_range_se!(c08_q_range_bvd3_s191_e192, 5, bvd3, 192, 191, 192);
h_copy_range_se!(c08_q_range_bvd3_s192_e192, 5, bvd3, 192, 192, 192);
h_copy_range_se!(c08_t_range_bvd1_s0_e64, 3, bvd1, 64, 0, 64);
h_copy_range_se!(c08_t_range_bvd1_s3_e60, 3, bvd1, 64, 3, 60);
h_copy_range_se!(c08_t_range_bvd1_s64_e64, 3, bvd1, 64, 64, 64);
h_copy_range_se!(c08_t_range_bvd2_s0_e128, 4, bvd2, 128, 0, 128);
h_copy_range_se!(c08_t_range_bvd2_s7_e120, 4, bvd2, 128, 7, 120);
h_copy_range_se!(c08_t_range_bvd2_s64_e128, 4, bvd2, 128, 64, 128);
h_copy_range_se!(c08_t_range_bvd2_s65_e127, 4, bvd2, 128, 65, 127);
h_copy_range_se!(c08_t_range_bvd4_s0_e256, 6, bvd4, 256, 0, 256);
h_copy_range_se!(c08_t_range_bvd4_s1_e255, 6, bvd4, 256, 1, 255);
h_copy_range_se!(c08_t_range_bvd4_s64_e256, 6, bvd4, 256, 64, 256);
h_copy_range_se!(c08_t_range_bvd4_s130_e250, 6, bvd4, 256, 130, 250);
h_copy_range_se!(c08_t_range_bvd4_s192_e256, 6, bvd4, 256, 192, 256);
h_copy_range_se!(c08_t_range_bvd4_s256_e256, 6, bvd4, 256, 256, 256);
h_copy_range_se!(c08_t_range_bvd3_s1_e1, 5, bvd3, 192, 1, 1);
h_copy_range_se!(c08_t_range_bvd3_s2_e66, 5, bvd3, 192, 2, 66);
h_copy_range_se!(c08_t_range_bvd3_s62_e190, 5, bvd3, 192, 62, 190);
h_copy_range_se!(c08_t_range_bvd3_s66_e130, 5, bvd3, 192, 66, 130);

h_split_off_ni!(c08_q_splitoff_bvd3_n0_i0, 5, bvd3, 0, 0);
h_split_off_ni!(c08_q_splitoff_bvd3_n1_i0, 5, bvd3, 1, 0);
h_split_off_ni!(c08_q_splitoff_bvd3_n1_i1, 5, bvd3, 1, 1);
h_split_off_ni!(c08_q_splitoff_bvd3_n64_i0, 5, bvd3, 64, 0);
h_split_off_ni!(c08_q_splitoff_bvd3_n64_i64, 5, bvd3, 64, 64);
h_split_off_ni!(c08_q_splitoff_bvd3_n65_i64, 5, bvd3, 65, 64);
h_split_off_ni!(c08_q_splitoff_bvd3_n65_i1, 5, bvd3, 65, 1);
h_split_off_ni!(c08_q_splitoff_bvd3_n128_i64, 5, bvd3, 128, 64);
h_split_off_ni!(c08_q_splitoff_bvd3_n128_i63, 5, bvd3, 128, 63);
h_split_off_ni!(c08_q_splitoff_bvd3_n130_i65, 5, bvd3, 130, 65);
h_split_off_ni!(c08_q_splitoff_bvd3_n192_i0, 5, bvd3, 192, 0);
h_split_off_ni!(c08_q_splitoff_bvd3_n192_i64, 5, bvd3, 192, 64);
h_split_off_ni!(c08_q_splitoff_bvd3_n192_i128, 5, bvd3, 192, 128);
h_split_off_ni!(c08_q_splitoff_bvd3_n192_i191, 5, bvd3, 192, 191);
h_split_off_ni!(c08_q_splitoff_bvd3_n192_i192, 5, bvd3, 192, 192);
h_split_off_ni!(c08_q_splitoff_bvd3_n100_i37, 5, bvd3, 100, 37);
h_split_ni!(c08_q_split_bvd3_n128_i64, 5, bvd3, 128, 64);
h_split_ni!(c08_q_split_bvd3_n70_i70, 5, bvd3, 70, 70);
h_split_ni!(c08_q_split_bvd3_n192_i65, 5, bvd3, 192, 65);
h_rejoin_ni!(c08_q_rejoin_bvd3_n192_i64, 5, bvd3, 192, 64);
h_rejoin_ni!(c08_q_rejoin_bvd3_n192_i100, 5, bvd3, 192, 100);
h_rejoin_ni!(c08_q_rejoin_bvd3_n130_i0, 5, bvd3, 130, 0);
h_rejoin_ni!(c08_q_rejoin_bvd3_n130_i130, 5, bvd3, 130, 130);
h_rejoin_ni!(c08_q_rejoin_bvd3_n64_i3, 5, bvd3, 64, 3);
h_split_off_ni!(c08_t_splitoff_bvd2_n128_i1, 4, bvd2, 128, 1);
h_split_off_ni!(c08_t_splitoff_bvd2_n128_i127, 4, bvd2, 128, 127);
h_split_off_ni!(c08_t_splitoff_bvd2_n66_i64, 4, bvd2, 66, 64);
h_split_off_ni!(c08_t_splitoff_bvd4_n256_i128, 6, bvd4, 256, 128);
h_split_off_ni!(c08_t_splitoff_bvd4_n256_i1, 6, bvd4, 256, 1);
h_split_off_ni!(c08_t_splitoff_bvd4_n200_i136, 6, bvd4, 200, 136);

// ---- Bv in heap mode (sources longer and shorter than the inline limit) -----------------------
h_copy_range_bv_se!(c08_q_range_bvdyn3_s0_e0, 5, bvdyn3, 192, 0, 0);
h_copy_range_bv_se!(c08_q_range_bvdyn3_s0_e128, 5, bvdyn3, 192, 0, 128);
h_copy_range_bv_se!(c08_q_range_bvdyn3_s0_e129, 5, bvdyn3, 192, 0, 129);
h_copy_range_bv_se!(c08_q_range_bvdyn3_s1_e129, 5, bvdyn3, 192, 1, 129);
h_copy_range_bv_se!(c08_q_range_bvdyn3_s1_e130, 5, bvdyn3, 192, 1, 130);
h_copy_range_bv_se!(c08_q_range_bvdyn3_s64_e192, 5, bvdyn3, 192, 64, 192);
h_copy_range_bv_se!(c08_q_range_bvdyn3_s63_e192, 5, bvdyn3, 192, 63, 192);
h_copy_range_bv_se!(c08_q_range_bvdyn3_s60_e70, 5, bvdyn3, 192, 60, 70);
h_copy_range_bv_se!(c08_q_range_bvdyn3_s128_e192, 5, bvdyn3, 192, 128, 192);
h_copy_range_bv_se!(c08_q_range_bvdyn3_s192_e192, 5, bvdyn3, 192, 192, 192);
h_copy_range_bv_se!(c08_q_range_bvdyn3_s0_e192, 5, bvdyn3, 192, 0, 192);
h_copy_range_bv_se!(c08_q_range_bvdyn3_s130_e131, 5, bvdyn3, 192, 130, 131);
h_copy_range_bv_se!(c08_t_range_bvdyn2_s0_e64, 4, bvdyn2, 128, 0, 64);
h_copy_range_bv_se!(c08_t_range_bvdyn2_s5_e128, 4, bvdyn2, 128, 5, 128);
h_copy_range_bv_se!(c08_t_range_bvdyn2_s0_e127, 4, bvdyn2, 128, 0, 127);
h_split_off_ni!(c08_q_splitoff_bvdyn3_n192_i64, 5, bvdyn3, 192, 64);
h_split_off_ni!(c08_q_splitoff_bvdyn3_n192_i63, 5, bvdyn3, 192, 63);
h_split_off_ni!(c08_q_splitoff_bvdyn3_n130_i2, 5, bvdyn3, 130, 2);
h_split_off_ni!(c08_q_splitoff_bvdyn3_n100_i50, 5, bvdyn3, 100, 50);
h_split_off_ni!(c08_q_splitoff_bvdyn3_n192_i192, 5, bvdyn3, 192, 192);
h_split_off_ni!(c08_q_splitoff_bvdyn3_n129_i0, 5, bvdyn3, 129, 0);
h_split_ni!(c08_q_split_bvdyn3_n192_i64, 5, bvdyn3, 192, 64);
h_split_ni!(c08_q_split_bvdyn3_n129_i1, 5, bvdyn3, 129, 1);

// ---- Bv inline: split_off / split go through Bv::resize, whose (dead) promotion branch allocates
// by length, so the lengths are concrete here as well
h_split_off_ni!(c08_q_splitoff_bvfix_n128_i64, 5, bvfix, 128, 64);
h_split_off_ni!(c08_q_splitoff_bvfix_n128_i0, 5, bvfix, 128, 0);
h_split_off_ni!(c08_q_splitoff_bvfix_n128_i128, 5, bvfix, 128, 128);
h_split_off_ni!(c08_q_splitoff_bvfix_n100_i37, 5, bvfix, 100, 37);
h_split_off_ni!(c08_q_splitoff_bvfix_n0_i0, 5, bvfix, 0, 0);
h_split_off_ni!(c08_t_splitoff_bvfix_n65_i64, 5, bvfix, 65, 64);
h_split_off_ni!(c08_t_splitoff_bvfix_n127_i1, 5, bvfix, 127, 1);
h_split_ni!(c08_q_split_bvfix_n128_i65, 5, bvfix, 128, 65);
h_split_ni!(c08_q_split_bvfix_n9_i9, 5, bvfix, 9, 9);
h_rejoin_ni!(c08_q_rejoin_bvfix_n128_i64, 20, bvfix, 128, 64);
h_rejoin_ni!(c08_q_rejoin_bvfix_n100_i37, 20, bvfix, 100, 37);
h_rejoin_ni!(c08_t_rejoin_bvfix_n128_i1, 20, bvfix, 128, 1);

// ---- one-word fixed vectors (a vector filled to capacity: s = e = len = capacity) ---------------
h_copy_range!(c08_q_range_f8x1, 3, f8x1(anylen(8)), 8);
h_copy_range!(c08_q_range_f16x1, 3, f16x1(anylen(16)), 16);
h_copy_range!(c08_q_range_f64x1, 3, f64x1(anylen(64)), 64);
h_copy_range!(c08_t_range_f32x1, 3, f32x1(anylen(32)), 32);
h_copy_range!(c08_t_range_f128x1, 3, f128x1(anylen(128)), 128);
h_split!(c08_q_split_f8x1, 5, f8x1(anylen(8)), 8);
h_split!(c08_t_split_f16x1, 6, f16x1(anylen(16)), 16);
h_first_last!(c08_q_firstlast_f8x1, 3, f8x1(anylen(8)));
