//! Kani harnesses deciding the bva properties C01..C20 (see /verif/DESIGN.md).
//!
//! Every harness is declared through a macro whose name starts with `h` and whose first
//! argument is the harness name `cNN_<tier>_<rest>`; the driver (`/verif/check`) discovers
//! harnesses by that convention. `<tier>` is `q` (quick and thorough) or `t` (thorough).
//! A `_pr` suffix selects the release-like model (debug assertions off) only, `_pb` both.
#![allow(dead_code, unused_imports, unused_mut, unused_variables, clippy::all)]
#![cfg_attr(kani, feature(formatting_options))]

#[cfg(kani)]
extern crate alloc;

pub mod big;
#[macro_use]
pub mod nd;
pub mod scopes;

/// Declare a harness: a plain function natively, a `#[kani::proof]` under Kani.
#[macro_export]
macro_rules! harness {
    ($name:ident, $unw:literal, $body:block) => {
        #[cfg_attr(kani, kani::proof)]
        #[cfg_attr(kani, kani::unwind($unw))]
        pub fn $name() $body
    };
}

/// Replacement for `<[T]>::copy_from_slice` under Kani (`-Z stubbing`): CBMC 6.11 mis-models a
/// `memcpy` of symbolic size over elements wider than one byte (minimal probe: `dst[..n]
/// .copy_from_slice(&src[..n])` on `[u64; 2]` with symbolic `n` "fails" `dst[0] == src[0]`,
/// natively fine), which gives spurious, non-reproducing counterexamples in the word-aligned
/// arm of `Bvf::copy_range` for u16/u32/u64 words. Element-wise copy, same panic condition.
#[cfg(kani)]
pub fn copy_from_slice_model<T: Copy>(dst: &mut [T], src: &[T]) {
    assert!(dst.len() == src.len(), "copy_from_slice: source and destination lengths differ");
    let mut i = 0;
    while i < dst.len() {
        dst[i] = src[i];
        i += 1;
    }
}

/// `harness!` with `<[T]>::copy_from_slice` replaced by `copy_from_slice_model` (the property's
/// meta file must say `"needs_stubbing": true` so that the driver passes `-Z stubbing`).
#[macro_export]
macro_rules! harness_cfs {
    ($name:ident, $unw:literal, $body:block) => {
        #[cfg_attr(kani, kani::proof)]
        #[cfg_attr(kani, kani::unwind($unw))]
        #[cfg_attr(kani, kani::stub(<[u64]>::copy_from_slice, $crate::copy_from_slice_model))]
        pub fn $name() $body
    };
}

/// Must-panic variant of `harness_cfs!`.
#[macro_export]
macro_rules! harness_mp_cfs {
    ($name:ident, $unw:literal, $body:block) => {
        #[cfg_attr(kani, kani::proof)]
        #[cfg_attr(kani, kani::unwind($unw))]
        #[cfg_attr(kani, kani::should_panic)]
        #[cfg_attr(kani, kani::stub(<[u64]>::copy_from_slice, $crate::copy_from_slice_model))]
        pub fn $name() $body
    };
}

/// Declare a must-panic harness (DESIGN.md §3.5).
#[macro_export]
macro_rules! harness_mp {
    ($name:ident, $unw:literal, $body:block) => {
        #[cfg_attr(kani, kani::proof)]
        #[cfg_attr(kani, kani::unwind($unw))]
        #[cfg_attr(kani, kani::should_panic)]
        pub fn $name() $body
    };
}

#[cfg(feature = "c01")]
pub mod c01;
#[cfg(feature = "c02")]
pub mod c02;
#[cfg(feature = "c03")]
pub mod c03;
#[cfg(feature = "c04")]
pub mod c04;
#[cfg(feature = "c05")]
pub mod c05;
#[cfg(feature = "c06")]
pub mod c06;
#[cfg(feature = "c07")]
pub mod c07;
#[cfg(feature = "c08")]
pub mod c08;
#[cfg(feature = "c09")]
pub mod c09;
#[cfg(feature = "c10")]
pub mod c10;
#[cfg(feature = "c11")]
pub mod c11;
#[cfg(feature = "c12")]
pub mod c12;
#[cfg(feature = "c13")]
pub mod c13;
#[cfg(feature = "c14")]
pub mod c14;
#[cfg(feature = "c15")]
pub mod c15;
#[cfg(feature = "c16")]
pub mod c16;
#[cfg(feature = "c17")]
pub mod c17;
#[cfg(feature = "c18")]
pub mod c18;
#[cfg(feature = "c19")]
pub mod c19;
#[cfg(feature = "c20")]
pub mod c20;

