//! Kani harnesses deciding the bva properties C01..C20 (see /verif/DESIGN.md).
//!
//! Every harness is declared through a macro whose name starts with `h` and whose first
//! argument is the harness name `cNN_<tier>_<rest>`; the driver (`/verif/check`) discovers
//! harnesses by that convention. `<tier>` is `q` (quick and thorough) or `t` (thorough).
//! A `_pr` suffix selects the release-like model (debug assertions off) only, `_pb` both.
#![allow(dead_code, unused_imports, unused_mut, unused_variables, clippy::all)]

pub mod big;
#[macro_use]
pub mod nd;
pub mod scopes;

/// Declare a harness: a plain function natively, a `#[kani::proof]` under Kani.
#[macro_export]
macro_rules! harness {
    ($name:ident, $unw:literal, $body:block) => {
        #[cfg_attr(kani, kani::proof)]
        #[cfg_attr(kani, kani::unwind($unw))]
        pub fn $name() $body
    };
}

/// Declare a must-panic harness (DESIGN.md §3.5).
#[macro_export]
macro_rules! harness_mp {
    ($name:ident, $unw:literal, $body:block) => {
        #[cfg_attr(kani, kani::proof)]
        #[cfg_attr(kani, kani::unwind($unw))]
        #[cfg_attr(kani, kani::should_panic)]
        pub fn $name() $body
    };
}

#[cfg(feature = "c04")]
pub mod c04;

