//! C07 harnesses (not written yet).
