//! C07 — editing operations behave exactly like edits on a list of bits.
//!
//! One inductive step per operation from an arbitrary `Inv` pre-state `(len, v)` (so any
//! sequence of edits follows by induction). The post-state is read from the raw storage
//! (`into_raw()`: padding bits and spare words included) and compared with the list edit:
//!
//!   push(b)        (n+1, v | b<<n)            pop()          (n-1, v mod 2^(n-1)), Some(bit n-1)
//!   set(i,b)       bit i := b                 truncate(m)    m<n: (m, v mod 2^m)
//!   resize(m,b)    m<=n: (m, v mod 2^m); m>n: (m, v | b * (2^m - 2^n))
//!   sign_extend(m) m>n: resize(m, bit n-1 or 0 when empty)
//!   append(x)      (n+k, v | x<<n)            prepend(x)     (n+k, x | v<<k)
//!   insert(i,x)    (n+k, v mod 2^i | x<<i | (v>>i)<<(i+k))
//!   extend(bits)   like append                collect(bits)  (k, bits)
use crate::big::Big;
use crate::nd;
use crate::scopes::*;
use bva::{Bit, BitVector, Bv, Bvd, Bvf};

#[inline(always)]
fn one(b: Bit) -> bool {
    b == Bit::One
}

#[inline(always)]
fn bit_of(b: bool) -> Bit {
    if b {
        Bit::One
    } else {
        Bit::Zero
    }
}

/// Bits n..m set (m > n), else zero.
#[inline(always)]
fn fill(n: usize, m: usize, b: bool) -> Big {
    if b {
        Big::mask(m).and(Big::mask(n).not())
    } else {
        Big::ZERO
    }
}

/// Replacement for `<[T]>::copy_from_slice` under Kani: CBMC 6.11 mis-models a `memcpy`
/// of symbolic size over elements wider than one byte (spurious counterexamples in
/// `Bvf::copy_range`, used by `insert`). Element-wise copy, same panic condition.
#[cfg(kani)]
pub fn copy_from_slice_model<T: Copy>(dst: &mut [T], src: &[T]) {
    assert!(dst.len() == src.len(), "copy_from_slice: source and destination lengths differ");
    let mut i = 0;
    while i < dst.len() {
        dst[i] = src[i];
        i += 1;
    }
}

/// `harness!` plus the `copy_from_slice` stub.
macro_rules! harness_cfs {
    ($name:ident, $unw:literal, $body:block) => {
        #[cfg_attr(kani, kani::proof)]
        #[cfg_attr(kani, kani::unwind($unw))]
        #[cfg_attr(kani, kani::stub(<[u64]>::copy_from_slice, copy_from_slice_model))]
        pub fn $name() $body
    };
}

// Witness sets: `sym` for harnesses with symbolic lengths, `con` for concrete lengths
// (only the contents are symbolic there).
macro_rules! wit_sym1 {
    ($ra:ident) => {
        w!($ra.len == 0, "empty subject");
        w!($ra.len > 0 && $ra.len % 8 == 0 && $ra.v.bit($ra.len - 1), "subject ends on a byte boundary with its top bit set");
        w!($ra.len % 8 != 0 && $ra.len > 8, "subject ends inside a byte above byte 0");
    };
}
macro_rules! wit_con1 {
    ($ra:ident) => {
        w!($ra.v.is_zero(), "subject all zeros (or empty)");
        w!($ra.len == 0 || $ra.v.bit($ra.len - 1), "subject empty or top bit set");
    };
}
macro_rules! wit_sym2 {
    ($ra:ident, $rx:ident) => {
        w!($rx.len == 0 && $ra.len > 0, "empty operand, non-empty subject");
        w!($ra.len == 0 && $rx.len > 0, "empty subject, non-empty operand");
        w!($ra.len % 8 == 0 && $ra.len > 0 && $rx.len % 8 != 0, "subject ends on a byte boundary, operand is not a whole number of bytes");
        w!($ra.len % 8 != 0 && $rx.len % 8 != 0 && $rx.len > 0 && $rx.v.bit($rx.len - 1), "both unaligned, operand top bit set");
        w!($ra.len + $rx.len == $ra.cap && $rx.len > 0, "result fills the subject's storage exactly");
    };
}
macro_rules! wit_con2 {
    ($ra:ident, $rx:ident) => {
        w!($rx.len == 0 || $rx.v.bit($rx.len - 1), "operand empty or top bit set");
        w!($ra.len == 0 || $ra.v.bit($ra.len - 1), "subject empty or top bit set");
        w!($rx.v.is_zero() && $ra.v.is_zero(), "all zeros");
    };
}

// ---- push / pop / set ---------------------------------------------------------------------

macro_rules! h_push {
    ($name:ident, $unw:literal, $a:expr, $max:expr, $wit:ident) => {
        harness!($name, $unw, {
            let (mut a, ra) = $a;
            let n = ra.len;
            nd::assume(n < $max);
            $wit!(ra);
            let b = nd::bit();
            a.push(b);
            let r = a.into_raw();
            assert!(r.len == n + 1, "C07: push: length != len + 1");
            assert!(r.v == ra.v.or(fill(n, n + 1, one(b))), "C07: push: storage != v | b << len");
            assert!(r.len <= r.cap, "C07: len > capacity");
        });
    };
}

macro_rules! h_pop {
    ($name:ident, $unw:literal, $a:expr, $wit:ident) => {
        harness!($name, $unw, {
            let (mut a, ra) = $a;
            let n = ra.len;
            $wit!(ra);
            let p = a.pop();
            let r = a.into_raw();
            if n == 0 {
                assert!(p.is_none(), "C07: pop on an empty vector returned a bit");
                assert!(r == ra, "C07: pop on an empty vector changed it");
            } else {
                assert!(p == Some(bit_of(ra.v.bit(n - 1))), "C07: pop did not return the top bit");
                assert!(r.len == n - 1 && r.v == ra.v.trunc(n - 1), "C07: pop: storage != (len-1, v mod 2^(len-1))");
                assert!(r.cap == ra.cap, "C07: pop changed the capacity");
            }
        });
    };
}

macro_rules! h_set {
    ($name:ident, $unw:literal, $a:expr) => {
        harness!($name, $unw, {
            let (mut a, ra) = $a;
            let n = ra.len;
            nd::assume(n > 0);
            let i = nd::upto(n - 1);
            let b = nd::bit();
            w!(i == n - 1 && n == ra.cap, "set the top storage bit");
            w!(i == 0 && n > 1, "set bit 0");
            w!(one(b) != ra.v.bit(i), "bit changes");
            w!(one(b) == ra.v.bit(i), "bit keeps its value");
            a.set(i, b);
            let r = a.into_raw();
            let want = ra.v.and(fill(i, i + 1, true).not()).or(fill(i, i + 1, one(b)));
            assert!(r.len == n && r.v == want, "C07: set: storage != v with bit i replaced");
            assert!(r.cap == ra.cap, "C07: set changed the capacity");
        });
    };
}

// ---- resize / truncate / sign_extend --------------------------------------------------------

macro_rules! h_resize {
    ($name:ident, $unw:literal, $a:expr, $m:expr, $wit:ident) => {
        harness!($name, $unw, {
            let (mut a, ra) = $a;
            let n = ra.len;
            let m: usize = $m;
            let b = nd::bit();
            $wit!(ra);
            w!(one(b), "fill bit is one");
            a.resize(m, b);
            let r = a.into_raw();
            let want = if m <= n { ra.v.trunc(m) } else { ra.v.or(fill(n, m, one(b))) };
            assert!(r.len == m, "C07: resize: length != new_len");
            assert!(r.v == want, "C07: resize: storage != truncated / filled value");
            assert!(r.len <= r.cap, "C07: len > capacity");
        });
    };
}

macro_rules! wit_resize_sym {
    ($ra:ident, $m:ident) => {
        w!($m > $ra.len && $ra.len % 8 != 0 && $m > $ra.len + 8, "grow from inside a byte across a byte boundary");
        w!($m < $ra.len && $m % 8 != 0 && $ra.len > $m + 8, "shrink to inside a byte across a byte boundary");
        w!($m == $ra.len && $m > 0, "new_len == len");
        w!($m == 0 && $ra.len > 0, "shrink to empty");
        w!($m == $ra.cap && $ra.len < $m, "grow to the full storage");
    };
}

/// resize with both lengths symbolic (cheap types), extra length witnesses.
macro_rules! h_resize_sym {
    ($name:ident, $unw:literal, $a:expr, $max:expr) => {
        harness!($name, $unw, {
            let (mut a, ra) = $a;
            let n = ra.len;
            let m: usize = nd::upto($max);
            let b = nd::bit();
            wit_resize_sym!(ra, m);
            w!(one(b) && m > n, "grow with ones");
            a.resize(m, b);
            let r = a.into_raw();
            let want = if m <= n { ra.v.trunc(m) } else { ra.v.or(fill(n, m, one(b))) };
            assert!(r.len == m, "C07: resize: length != new_len");
            assert!(r.v == want, "C07: resize: storage != truncated / filled value");
            assert!(r.len <= r.cap, "C07: len > capacity");
        });
    };
}

/// truncate: `m` is any usize when symbolic (values above the capacity are no-ops).
macro_rules! h_truncate {
    ($name:ident, $unw:literal, $a:expr, $m:expr, $wit:ident) => {
        harness!($name, $unw, {
            let (mut a, ra) = $a;
            let n = ra.len;
            let m: usize = $m;
            $wit!(ra);
            a.truncate(m);
            let r = a.into_raw();
            if m < n {
                assert!(r.len == m && r.v == ra.v.trunc(m), "C07: truncate: storage != (m, v mod 2^m)");
            } else {
                assert!(r.len == n && r.v == ra.v, "C07: truncate with new_len >= len changed the vector");
            }
            assert!(r.cap == ra.cap, "C07: truncate changed the capacity");
        });
    };
}

macro_rules! h_truncate_sym {
    ($name:ident, $unw:literal, $a:expr) => {
        harness!($name, $unw, {
            let (mut a, ra) = $a;
            let n = ra.len;
            let m: usize = nd::usize();
            w!(m > ra.cap, "new_len beyond the capacity (no-op)");
            w!(m == n && n > 0, "new_len == len");
            w!(m < n && m % 8 != 0 && n > m + 8, "truncate to inside a byte across a byte boundary");
            w!(m == 0 && n > 0, "truncate to empty");
            a.truncate(m);
            let r = a.into_raw();
            if m < n {
                assert!(r.len == m && r.v == ra.v.trunc(m), "C07: truncate: storage != (m, v mod 2^m)");
            } else {
                assert!(r.len == n && r.v == ra.v, "C07: truncate with new_len >= len changed the vector");
            }
            assert!(r.cap == ra.cap, "C07: truncate changed the capacity");
        });
    };
}

macro_rules! h_sign_extend {
    ($name:ident, $unw:literal, $a:expr, $m:expr, $wit:ident) => {
        harness!($name, $unw, {
            let (mut a, ra) = $a;
            let n = ra.len;
            let m: usize = $m;
            $wit!(ra);
            a.sign_extend(m);
            let r = a.into_raw();
            if m > n {
                let sign = n > 0 && ra.v.bit(n - 1);
                assert!(r.len == m, "C07: sign_extend: length != new_length");
                assert!(r.v == ra.v.or(fill(n, m, sign)), "C07: sign_extend: storage != v with the top bit replicated");
            } else {
                assert!(r.len == n && r.v == ra.v, "C07: sign_extend with new_length <= len changed the vector");
            }
            assert!(r.len <= r.cap, "C07: len > capacity");
        });
    };
}

macro_rules! h_sign_extend_sym {
    ($name:ident, $unw:literal, $a:expr, $max:expr) => {
        harness!($name, $unw, {
            let (mut a, ra) = $a;
            let n = ra.len;
            // lengths up to the storage grow; anything not above len (any usize) is a no-op
            let m: usize = nd::usize();
            nd::assume(m <= $max || m <= n);
            w!(m > n && n > 0 && ra.v.bit(n - 1) && m > n + 8, "extends a negative value by more than a byte");
            w!(m > n && n > 0 && !ra.v.bit(n - 1), "extends a non-negative value");
            w!(m > n && n == 0, "extends an empty vector (with zeros)");
            w!(m < n, "new_length < len (no-op)");
            w!(m == ra.cap && n < m && n % 8 != 0, "extends to the full storage from inside a byte");
            a.sign_extend(m);
            let r = a.into_raw();
            if m > n {
                let sign = n > 0 && ra.v.bit(n - 1);
                assert!(r.len == m, "C07: sign_extend: length != new_length");
                assert!(r.v == ra.v.or(fill(n, m, sign)), "C07: sign_extend: storage != v with the top bit replicated");
            } else {
                assert!(r.len == n && r.v == ra.v, "C07: sign_extend with new_length <= len changed the vector");
            }
            assert!(r.len <= r.cap, "C07: len > capacity");
        });
    };
}

// ---- append / prepend / insert -------------------------------------------------------------

macro_rules! h_append {
    ($name:ident, $unw:literal, $a:expr, $x:expr, $max:expr, $wit:ident) => {
        harness!($name, $unw, {
            let (mut a, ra) = $a;
            let (x, rx) = $x;
            let n = ra.len;
            let k = rx.len;
            nd::assume(n + k <= $max);
            $wit!(ra, rx);
            a.append(&x);
            let r = a.into_raw();
            assert!(r.len == n + k, "C07: append: length != len + len(suffix)");
            assert!(r.v == ra.v.or(rx.v.shl(n)), "C07: append: storage != v | x << len");
            assert!(r.len <= r.cap, "C07: len > capacity");
            assert!(x.into_raw() == rx, "C07: append modified its argument");
        });
    };
}

macro_rules! h_prepend {
    ($name:ident, $unw:literal, $a:expr, $x:expr, $max:expr, $wit:ident) => {
        harness!($name, $unw, {
            let (mut a, ra) = $a;
            let (x, rx) = $x;
            let n = ra.len;
            let k = rx.len;
            nd::assume(n + k <= $max);
            $wit!(ra, rx);
            a.prepend(&x);
            let r = a.into_raw();
            assert!(r.len == n + k, "C07: prepend: length != len + len(prefix)");
            assert!(r.v == rx.v.or(ra.v.shl(k)), "C07: prepend: storage != x | v << len(x)");
            assert!(r.len <= r.cap, "C07: len > capacity");
            assert!(x.into_raw() == rx, "C07: prepend modified its argument");
        });
    };
}

macro_rules! wit_ins_sym {
    ($ra:ident, $rx:ident, $i:ident) => {
        w!($i == 0 && $ra.len > 0 && $rx.len > 0, "insert at 0 (= prepend)");
        w!($i == $ra.len && $ra.len > 0 && $rx.len > 0, "insert at len (= append)");
        w!($i > 0 && $i < $ra.len && $rx.len == 0, "empty infix in the middle");
        w!($i > 0 && $i < $ra.len && $i % 8 != 0 && $rx.len % 8 != 0 && $rx.len > 0 && $ra.v.bit($ra.len - 1), "unaligned index and infix, subject top bit set");
        w!($i > 0 && $i < $ra.len && $ra.len + $rx.len == $ra.cap && $rx.len > 0, "result fills the subject's storage exactly");
    };
}
macro_rules! wit_ins_con {
    ($ra:ident, $rx:ident, $i:ident) => {
        w!($rx.len == 0 || $rx.v.bit($rx.len - 1), "infix empty or top bit set");
        w!($ra.len == 0 || $ra.v.bit($ra.len - 1), "subject empty or top bit set");
        w!($rx.v.is_zero() && ($ra.len == 0 || !$ra.v.is_zero()), "zero infix, non-zero subject (unless the subject is empty)");
    };
}

macro_rules! h_insert {
    ($name:ident, $unw:literal, $a:expr, $i:expr, $x:expr, $max:expr, $wit:ident) => {
        harness_cfs!($name, $unw, {
            let (mut a, ra) = $a;
            let (x, rx) = $x;
            let n = ra.len;
            let k = rx.len;
            nd::assume(n + k <= $max);
            let i: usize = $i;
            nd::assume(i <= n);
            $wit!(ra, rx, i);
            a.insert(i, &x);
            let r = a.into_raw();
            let want = ra.v.trunc(i).or(rx.v.shl(i)).or(ra.v.shr(i).shl(i + k));
            assert!(r.len == n + k, "C07: insert: length != len + len(infix)");
            assert!(r.v == want, "C07: insert: storage != low | x << i | high << (i + len(x))");
            assert!(r.len <= r.cap, "C07: len > capacity");
            assert!(x.into_raw() == rx, "C07: insert modified its argument");
        });
    };
}

// ---- extend / collect -----------------------------------------------------------------------

/// `K` symbolic bits as an array (bit j of the model value = element j).
macro_rules! bits_array {
    ($k:literal) => {{
        let raw = nd::u8();
        let all: [Bit; 8] = [
            bit_of(raw & 1 != 0),
            bit_of(raw & 2 != 0),
            bit_of(raw & 4 != 0),
            bit_of(raw & 8 != 0),
            bit_of(raw & 16 != 0),
            bit_of(raw & 32 != 0),
            bit_of(raw & 64 != 0),
            bit_of(raw & 128 != 0),
        ];
        (all, Big::lo(raw as u128).trunc($k))
    }};
}

/// extend from a slice iterator over `K` (concrete) symbolic bits.
macro_rules! h_extend_bits {
    ($name:ident, $unw:literal, $a:expr, $k:literal, $max:expr, $wit:ident) => {
        harness!($name, $unw, {
            let (mut a, ra) = $a;
            let n = ra.len;
            nd::assume(n + $k <= $max);
            let (bits, bv) = bits_array!($k);
            $wit!(ra);
            w!($k == 0 || bv.bit($k - 1), "no bits, or last bit pushed is one");
            a.extend(bits[..$k].iter().copied());
            let r = a.into_raw();
            assert!(r.len == n + $k, "C07: extend: length != len + number of bits");
            assert!(r.v == ra.v.or(bv.shl(n)), "C07: extend: storage != v | bits << len");
            assert!(r.len <= r.cap, "C07: len > capacity");
        });
    };
}

/// extend from the bit iterator of another vector.
macro_rules! h_extend_iter {
    ($name:ident, $unw:literal, $a:expr, $x:expr, $max:expr, $wit:ident) => {
        harness!($name, $unw, {
            let (mut a, ra) = $a;
            let (x, rx) = $x;
            let n = ra.len;
            let k = rx.len;
            nd::assume(n + k <= $max);
            $wit!(ra, rx);
            a.extend(x.iter());
            let r = a.into_raw();
            assert!(r.len == n + k, "C07: extend: length != len + number of bits");
            assert!(r.v == ra.v.or(rx.v.shl(n)), "C07: extend: storage != v | bits << len");
            assert!(r.len <= r.cap, "C07: len > capacity");
            assert!(x.into_raw() == rx, "C07: extend modified the iterated vector");
        });
    };
}

macro_rules! h_collect_bits {
    ($name:ident, $unw:literal, $T:ty, $k:literal) => {
        harness!($name, $unw, {
            let (bits, bv) = bits_array!($k);
            w!($k == 0 || bv.bit($k - 1), "no bits, or last bit is one");
            w!($k == 0 || !bv.bit(0), "no bits, or first bit is zero");
            let c: $T = bits[..$k].iter().copied().collect();
            let r = c.into_raw();
            assert!(r.len == $k, "C07: collect: length != number of bits");
            assert!(r.v == bv, "C07: collect: storage != the bits in order");
            assert!(r.len <= r.cap, "C07: len > capacity");
        });
    };
}

macro_rules! h_collect_iter {
    ($name:ident, $unw:literal, $T:ty, $x:expr) => {
        harness!($name, $unw, {
            let (x, rx) = $x;
            w!(rx.len == 0 || rx.v.bit(rx.len - 1), "source empty or top bit set");
            w!(rx.len > 1 && !rx.v.bit(0) && rx.v.bit(1), "bits 0 and 1 differ");
            let c: $T = x.iter().collect();
            let r = c.into_raw();
            assert!(r.len == rx.len, "C07: collect: length != number of bits");
            assert!(r.v == rx.v, "C07: collect: storage != the bits in order");
            assert!(r.len <= r.cap, "C07: len > capacity");
            assert!(x.into_raw() == rx, "C07: collect modified the iterated vector");
        });
    };
}

// =============================================================================================
// Bvf subjects (and `Bv` operations that never allocate): lengths, indices and contents
// symbolic; growth is assumed to stay within the capacity (the overflow side is C19).
// =============================================================================================
h_push!(c07_q_push_f8x2, 3, f8x2(anylen(16)), 16, wit_sym1);
h_pop!(c07_q_pop_f8x2, 3, f8x2(anylen(16)), wit_sym1);
h_set!(c07_q_set_f8x2, 3, f8x2(anylen(16)));
h_resize_sym!(c07_q_resize_f8x2, 4, f8x2(anylen(16)), 16);
h_truncate_sym!(c07_q_truncate_f8x2, 4, f8x2(anylen(16)));
h_sign_extend_sym!(c07_q_signext_f8x2, 4, f8x2(anylen(16)), 16);
h_push!(c07_q_push_f8x3, 3, f8x3(anylen(24)), 24, wit_sym1);
h_pop!(c07_q_pop_f8x3, 3, f8x3(anylen(24)), wit_sym1);
h_set!(c07_q_set_f8x3, 3, f8x3(anylen(24)));
h_resize_sym!(c07_q_resize_f8x3, 5, f8x3(anylen(24)), 24);
h_truncate_sym!(c07_q_truncate_f8x3, 5, f8x3(anylen(24)));
h_sign_extend_sym!(c07_q_signext_f8x3, 5, f8x3(anylen(24)), 24);
h_push!(c07_q_push_f16x2, 3, f16x2(anylen(32)), 32, wit_sym1);
h_pop!(c07_q_pop_f16x2, 3, f16x2(anylen(32)), wit_sym1);
h_set!(c07_q_set_f16x2, 3, f16x2(anylen(32)));
h_resize_sym!(c07_q_resize_f16x2, 4, f16x2(anylen(32)), 32);
h_truncate_sym!(c07_q_truncate_f16x2, 4, f16x2(anylen(32)));
h_sign_extend_sym!(c07_q_signext_f16x2, 4, f16x2(anylen(32)), 32);
h_push!(c07_q_push_f64x2, 3, f64x2(anylen(128)), 128, wit_sym1);
h_pop!(c07_q_pop_f64x2, 3, f64x2(anylen(128)), wit_sym1);
h_set!(c07_q_set_f64x2, 3, f64x2(anylen(128)));
h_resize_sym!(c07_q_resize_f64x2, 4, f64x2(anylen(128)), 128);
h_truncate_sym!(c07_q_truncate_f64x2, 4, f64x2(anylen(128)));
h_sign_extend_sym!(c07_q_signext_f64x2, 4, f64x2(anylen(128)), 128);
h_push!(c07_t_push_f8x4, 3, f8x4(anylen(32)), 32, wit_sym1);
h_pop!(c07_t_pop_f8x4, 3, f8x4(anylen(32)), wit_sym1);
h_set!(c07_t_set_f8x4, 3, f8x4(anylen(32)));
h_resize_sym!(c07_t_resize_f8x4, 6, f8x4(anylen(32)), 32);
h_truncate_sym!(c07_t_truncate_f8x4, 6, f8x4(anylen(32)));
h_sign_extend_sym!(c07_t_signext_f8x4, 6, f8x4(anylen(32)), 32);
h_push!(c07_t_push_f32x2, 3, f32x2(anylen(64)), 64, wit_sym1);
h_pop!(c07_t_pop_f32x2, 3, f32x2(anylen(64)), wit_sym1);
h_set!(c07_t_set_f32x2, 3, f32x2(anylen(64)));
h_resize_sym!(c07_t_resize_f32x2, 4, f32x2(anylen(64)), 64);
h_truncate_sym!(c07_t_truncate_f32x2, 4, f32x2(anylen(64)));
h_sign_extend_sym!(c07_t_signext_f32x2, 4, f32x2(anylen(64)), 64);
h_push!(c07_t_push_f64x3, 3, f64x3(anylen(192)), 192, wit_sym1);
h_pop!(c07_t_pop_f64x3, 3, f64x3(anylen(192)), wit_sym1);
h_set!(c07_t_set_f64x3, 3, f64x3(anylen(192)));
h_resize_sym!(c07_t_resize_f64x3, 5, f64x3(anylen(192)), 192);
h_truncate_sym!(c07_t_truncate_f64x3, 5, f64x3(anylen(192)));
h_sign_extend_sym!(c07_t_signext_f64x3, 5, f64x3(anylen(192)), 192);
h_push!(c07_t_push_fuszx2, 3, fuszx2(anylen(128)), 128, wit_sym1);
h_pop!(c07_t_pop_fuszx2, 3, fuszx2(anylen(128)), wit_sym1);
h_set!(c07_t_set_fuszx2, 3, fuszx2(anylen(128)));
h_resize_sym!(c07_t_resize_fuszx2, 4, fuszx2(anylen(128)), 128);
h_truncate_sym!(c07_t_truncate_fuszx2, 4, fuszx2(anylen(128)));
h_sign_extend_sym!(c07_t_signext_fuszx2, 4, fuszx2(anylen(128)), 128);
h_push!(c07_t_push_f128x2, 3, f128x2(anylen(256)), 256, wit_sym1);
h_pop!(c07_t_pop_f128x2, 3, f128x2(anylen(256)), wit_sym1);
h_set!(c07_t_set_f128x2, 3, f128x2(anylen(256)));
h_resize_sym!(c07_t_resize_f128x2, 4, f128x2(anylen(256)), 256);
h_truncate_sym!(c07_t_truncate_f128x2, 4, f128x2(anylen(256)));
h_sign_extend_sym!(c07_t_signext_f128x2, 4, f128x2(anylen(256)), 256);

h_append!(c07_q_append_f8x2_f8x2, 7, f8x2(anylen(16)), f8x2(anylen(16)), 16, wit_sym2);
h_append!(c07_q_append_f8x2_f8x1, 7, f8x2(anylen(16)), f8x1(anylen(8)), 16, wit_sym2);
h_append!(c07_q_append_f8x2_f16x1, 7, f8x2(anylen(16)), f16x1(anylen(16)), 16, wit_sym2);
h_append!(c07_q_append_f8x2_f64x2, 7, f8x2(anylen(16)), f64x2(anylen(16)), 16, wit_sym2);
h_append!(c07_q_append_f8x2_bvd1, 7, f8x2(anylen(16)), bvd1(anylen(16)), 16, wit_sym2);
h_append!(c07_q_append_f8x2_bvfix, 7, f8x2(anylen(16)), bvfix(anylen(16)), 16, wit_sym2);
h_append!(c07_q_append_f8x2_bvdyn2, 7, f8x2(anylen(16)), bvdyn2(anylen(16)), 16, wit_sym2);
h_append!(c07_q_append_f8x3_f8x2, 9, f8x3(anylen(24)), f8x2(anylen(16)), 24, wit_sym2);
h_append!(c07_q_append_f8x3_f16x2, 9, f8x3(anylen(24)), f16x2(anylen(24)), 24, wit_sym2);
h_append!(c07_q_append_f8x3_bvd2, 9, f8x3(anylen(24)), bvd2(anylen(24)), 24, wit_sym2);
h_append!(c07_q_append_f16x2_f8x3, 7, f16x2(anylen(32)), f8x3(anylen(24)), 32, wit_sym2);
h_append!(c07_q_append_f16x2_f16x2, 7, f16x2(anylen(32)), f16x2(anylen(32)), 32, wit_sym2);
h_append!(c07_q_append_f16x2_bvd1, 7, f16x2(anylen(32)), bvd1(anylen(32)), 32, wit_sym2);
h_append!(c07_q_append_f64x2_f8x3, 7, f64x2(anylen(128)), f8x3(anylen(24)), 128, wit_sym2);
h_append!(c07_t_append_f64x2_f64x2, 19, f64x2(anylen(128)), f64x2(anylen(128)), 128, wit_sym2);
h_append!(c07_t_append_f64x2_bvd2, 19, f64x2(anylen(128)), bvd2(anylen(128)), 128, wit_sym2);
h_append!(c07_t_append_f64x2_bvdyn3, 19, f64x2(anylen(128)), bvdyn3(anylen(128)), 128, wit_sym2);
h_append!(c07_t_append_f64x2_f16x2, 7, f64x2(anylen(128)), f16x2(anylen(32)), 128, wit_sym2);
h_append!(c07_t_append_f8x3_f8x3, 9, f8x3(anylen(24)), f8x3(anylen(24)), 24, wit_sym2);
h_append!(c07_t_append_f16x2_f64x2, 7, f16x2(anylen(32)), f64x2(anylen(32)), 32, wit_sym2);
h_append!(c07_t_append_f8x4_f8x2, 11, f8x4(anylen(32)), f8x2(anylen(16)), 32, wit_sym2);
h_append!(c07_t_append_f32x2_f8x3, 7, f32x2(anylen(64)), f8x3(anylen(24)), 64, wit_sym2);

h_prepend!(c07_q_prepend_f8x2_f8x2, 8, f8x2(anylen(16)), f8x2(anylen(16)), 16, wit_sym2);
h_prepend!(c07_q_prepend_f8x2_f64x2, 8, f8x2(anylen(16)), f64x2(anylen(16)), 16, wit_sym2);
h_prepend!(c07_q_prepend_f8x2_bvd1, 8, f8x2(anylen(16)), bvd1(anylen(16)), 16, wit_sym2);
h_prepend!(c07_q_prepend_f8x2_bvfix, 8, f8x2(anylen(16)), bvfix(anylen(16)), 16, wit_sym2);
h_prepend!(c07_q_prepend_f8x3_f8x2, 10, f8x3(anylen(24)), f8x2(anylen(16)), 24, wit_sym2);
h_prepend!(c07_q_prepend_f8x3_bvdyn2, 10, f8x3(anylen(24)), bvdyn2(anylen(24)), 24, wit_sym2);
h_prepend!(c07_q_prepend_f16x2_f8x3, 8, f16x2(anylen(32)), f8x3(anylen(24)), 32, wit_sym2);
h_prepend!(c07_q_prepend_f16x2_f16x2, 8, f16x2(anylen(32)), f16x2(anylen(32)), 32, wit_sym2);
h_prepend!(c07_q_prepend_f64x2_f8x3, 8, f64x2(anylen(128)), f8x3(anylen(24)), 128, wit_sym2);
h_prepend!(c07_t_prepend_f64x2_f64x2, 20, f64x2(anylen(128)), f64x2(anylen(128)), 128, wit_sym2);
h_prepend!(c07_t_prepend_f64x2_bvd2, 20, f64x2(anylen(128)), bvd2(anylen(128)), 128, wit_sym2);
h_prepend!(c07_t_prepend_f8x3_f16x2, 10, f8x3(anylen(24)), f16x2(anylen(24)), 24, wit_sym2);
h_prepend!(c07_t_prepend_f8x2_bvdyn2, 8, f8x2(anylen(16)), bvdyn2(anylen(16)), 16, wit_sym2);
h_prepend!(c07_t_prepend_f8x4_f8x2, 12, f8x4(anylen(32)), f8x2(anylen(16)), 32, wit_sym2);
h_prepend!(c07_t_prepend_f32x2_f8x3, 8, f32x2(anylen(64)), f8x3(anylen(24)), 64, wit_sym2);

h_insert!(c07_q_insert_f8x2_f8x2, 8, f8x2(anylen(16)), nd::usize(), f8x2(anylen(16)), 16, wit_ins_sym);
h_insert!(c07_q_insert_f8x2_bvd1, 8, f8x2(anylen(16)), nd::usize(), bvd1(anylen(16)), 16, wit_ins_sym);
h_insert!(c07_q_insert_f8x2_bvfix, 8, f8x2(anylen(16)), nd::usize(), bvfix(anylen(16)), 16, wit_ins_sym);
h_insert!(c07_q_insert_f8x3_f8x2, 10, f8x3(anylen(24)), nd::usize(), f8x2(anylen(16)), 24, wit_ins_sym);
h_insert!(c07_q_insert_f16x2_f8x3, 8, f16x2(anylen(32)), nd::usize(), f8x3(anylen(24)), 32, wit_ins_sym);
h_insert!(c07_t_insert_f32x2_f8x2, 11, f32x2(anylen(64)), nd::usize(), f8x2(anylen(16)), 64, wit_ins_sym);
h_insert!(c07_t_insert_f8x3_f16x2, 10, f8x3(anylen(24)), nd::usize(), f16x2(anylen(24)), 24, wit_ins_sym);
h_insert!(c07_t_insert_f16x2_bvd1, 8, f16x2(anylen(32)), nd::usize(), bvd1(anylen(32)), 32, wit_ins_sym);
h_insert!(c07_t_insert_f8x2_f64x2, 8, f8x2(anylen(16)), nd::usize(), f64x2(anylen(16)), 16, wit_ins_sym);
h_insert!(c07_t_insert_f8x3_bvdyn2, 10, f8x3(anylen(24)), nd::usize(), bvdyn2(anylen(24)), 24, wit_ins_sym);

h_extend_bits!(c07_q_extend_f8x2_k0, 3, f8x2(anylen(16)), 0, 16, wit_sym1);
h_extend_bits!(c07_q_extend_f8x2_k1, 4, f8x2(anylen(16)), 1, 16, wit_sym1);
h_extend_bits!(c07_q_extend_f8x2_k5, 8, f8x2(anylen(16)), 5, 16, wit_sym1);
h_extend_bits!(c07_q_extend_f8x2_k7, 10, f8x2(anylen(16)), 7, 16, wit_sym1);
h_extend_bits!(c07_q_extend_f8x3_k8, 11, f8x3(anylen(24)), 8, 24, wit_sym1);
h_extend_bits!(c07_q_extend_f16x2_k3, 6, f16x2(anylen(32)), 3, 32, wit_sym1);
h_extend_bits!(c07_q_extend_f64x2_k8, 11, f64x2(anylen(128)), 8, 128, wit_sym1);
h_extend_bits!(c07_t_extend_f64x3_k7, 10, f64x3(anylen(192)), 7, 192, wit_sym1);
h_extend_bits!(c07_t_extend_f128x2_k8, 11, f128x2(anylen(256)), 8, 256, wit_sym1);
h_extend_iter!(c07_q_extend_f8x2_f8x1, 11, f8x2(anylen(16)), f8x1(anylen(8)), 16, wit_sym2);
h_extend_iter!(c07_q_extend_f16x2_bvd1, 19, f16x2(anylen(32)), bvd1(anylen(16)), 32, wit_sym2);
h_extend_iter!(c07_q_extend_f64x2_f8x2, 19, f64x2(anylen(128)), f8x2(anylen(16)), 128, wit_sym2);
h_extend_iter!(c07_q_extend_f8x2_bvfix, 19, f8x2(anylen(16)), bvfix(anylen(16)), 16, wit_sym2);
h_extend_iter!(c07_t_extend_f8x3_f16x1, 19, f8x3(anylen(24)), f16x1(anylen(16)), 24, wit_sym2);
h_extend_iter!(c07_t_extend_f8x3_bvdyn2, 27, f8x3(anylen(24)), bvdyn2(anylen(24)), 24, wit_sym2);
h_collect_bits!(c07_q_collect_f8x2_k0, 3, Bvf<u8, 2>, 0);
h_collect_bits!(c07_q_collect_f8x2_k4, 7, Bvf<u8, 2>, 4);
h_collect_bits!(c07_q_collect_f8x2_k8, 11, Bvf<u8, 2>, 8);
h_collect_bits!(c07_q_collect_f16x2_k8, 11, Bvf<u16, 2>, 8);
h_collect_bits!(c07_q_collect_f64x2_k8, 11, Bvf<u64, 2>, 8);
h_collect_bits!(c07_q_collect_f8x3_k7, 10, Bvf<u8, 3>, 7);
h_collect_bits!(c07_q_collect_bvd_k0, 3, Bvd, 0);
h_collect_bits!(c07_q_collect_bvd_k4, 7, Bvd, 4);
h_collect_bits!(c07_q_collect_bvd_k8, 11, Bvd, 8);
h_collect_bits!(c07_q_collect_bv_k0, 3, Bv, 0);
h_collect_bits!(c07_q_collect_bv_k8, 11, Bv, 8);
h_collect_iter!(c07_q_collect_f8x2_f8x1, 11, Bvf<u8, 2>, f8x1(anylen(8)));
h_collect_iter!(c07_q_collect_f64x2_f8x2, 19, Bvf<u64, 2>, f8x2(anylen(16)));
h_collect_iter!(c07_q_collect_f8x2_bvd1, 19, Bvf<u8, 2>, bvd1(anylen(16)));
h_collect_iter!(c07_t_collect_f8x3_f16x1, 19, Bvf<u8, 3>, f16x1(anylen(16)));
h_collect_iter!(c07_t_collect_f16x2_bvfix, 35, Bvf<u16, 2>, bvfix(anylen(32)));
h_collect_iter!(c07_q_collect_bvd_f8x2n13, 16, Bvd, f8x2(13));
h_collect_iter!(c07_q_collect_bv_f8x2n9, 12, Bv, f8x2(9));
h_collect_iter!(c07_t_collect_bvd_f16x2n20, 23, Bvd, f16x2(20));
h_collect_iter!(c07_t_collect_bvd_bvd2n66, 69, Bvd, bvd2(66));

// pop / set never allocate: symbolic lengths also on the heap types
h_pop!(c07_q_pop_bvd1, 3, bvd1(anylen(64)), wit_sym1);
h_pop!(c07_q_pop_bvd2, 3, bvd2(anylen(128)), wit_sym1);
h_pop!(c07_q_pop_bvd3, 3, bvd3(anylen(192)), wit_sym1);
h_pop!(c07_q_pop_bvfix, 3, bvfix(anylen(128)), wit_sym1);
h_pop!(c07_q_pop_bvdyn2, 3, bvdyn2(anylen(128)), wit_sym1);
h_pop!(c07_q_pop_bvdyn3, 3, bvdyn3(anylen(192)), wit_sym1);
h_pop!(c07_t_pop_bvd4, 3, bvd4(anylen(256)), wit_sym1);
h_pop!(c07_t_pop_bvdyn1, 3, bvdyn1(anylen(64)), wit_sym1);
h_set!(c07_q_set_bvd2, 3, bvd2(anylen(128)));
h_set!(c07_q_set_bvd3, 3, bvd3(anylen(192)));
h_set!(c07_q_set_bvfix, 3, bvfix(anylen(128)));
h_set!(c07_q_set_bvdyn3, 3, bvdyn3(anylen(192)));
h_set!(c07_t_set_bvd1, 3, bvd1(anylen(64)));
h_set!(c07_t_set_bvd4, 3, bvd4(anylen(256)));
h_set!(c07_t_set_bvdyn2, 3, bvdyn2(anylen(128)));

// =============================================================================================
// Bvd and Bv subjects for operations that may (re)allocate: CBMC needs syntactically constant
// allocation sizes, so the lengths are a concrete lattice around the 64-bit word boundaries,
// the inline limit (128) and the reallocation points; contents, fill bits and operand
// contents are symbolic. `bvdW(n)` has exactly W allocated words (spare words when n is
// small); `bvfix` = inline `Bv`, `bvdynW` = heap `Bv`.
// =============================================================================================
h_push!(c07_q_push_bvd0n0, 6, bvd0(0), 256, wit_con1);
h_push!(c07_q_push_bvd1n0, 6, bvd1(0), 256, wit_con1);
h_push!(c07_q_push_bvd1n63, 6, bvd1(63), 256, wit_con1);
h_push!(c07_q_push_bvd1n64, 6, bvd1(64), 256, wit_con1);
h_push!(c07_q_push_bvd2n64, 6, bvd2(64), 256, wit_con1);
h_push!(c07_q_push_bvd2n127, 6, bvd2(127), 256, wit_con1);
h_push!(c07_q_push_bvd2n128, 6, bvd2(128), 256, wit_con1);
h_push!(c07_q_push_bvd3n100, 6, bvd3(100), 256, wit_con1);
h_push!(c07_q_push_bvd3n192, 6, bvd3(192), 256, wit_con1);
h_push!(c07_q_push_bvfixn0, 6, bvfix(0), 256, wit_con1);
h_push!(c07_q_push_bvfixn127, 6, bvfix(127), 256, wit_con1);
h_push!(c07_q_push_bvfixn128, 6, bvfix(128), 256, wit_con1);
h_push!(c07_q_push_bvdyn2n100, 6, bvdyn2(100), 256, wit_con1);
h_push!(c07_q_push_bvdyn3n129, 6, bvdyn3(129), 256, wit_con1);
h_push!(c07_t_push_bvd1n1, 6, bvd1(1), 256, wit_con1);
h_push!(c07_t_push_bvd2n0, 6, bvd2(0), 256, wit_con1);
h_push!(c07_t_push_bvd3n191, 6, bvd3(191), 256, wit_con1);
h_push!(c07_t_push_bvfixn64, 6, bvfix(64), 256, wit_con1);
h_push!(c07_t_push_bvdyn1n10, 6, bvdyn1(10), 256, wit_con1);
h_push!(c07_t_push_bvdyn3n191, 6, bvdyn3(191), 256, wit_con1);

h_resize!(c07_q_resize_bvd1n0_m0, 7, bvd1(0), 0, wit_con1);
h_resize!(c07_q_resize_bvd1n0_m1, 7, bvd1(0), 1, wit_con1);
h_resize!(c07_q_resize_bvd1n0_m64, 7, bvd1(0), 64, wit_con1);
h_resize!(c07_q_resize_bvd1n0_m65, 7, bvd1(0), 65, wit_con1);
h_resize!(c07_q_resize_bvd1n5_m64, 7, bvd1(5), 64, wit_con1);
h_resize!(c07_q_resize_bvd1n60_m130, 7, bvd1(60), 130, wit_con1);
h_resize!(c07_q_resize_bvd1n64_m65, 7, bvd1(64), 65, wit_con1);
h_resize!(c07_q_resize_bvd1n64_m128, 7, bvd1(64), 128, wit_con1);
h_resize!(c07_q_resize_bvd1n63_m64, 7, bvd1(63), 64, wit_con1);
h_resize!(c07_q_resize_bvd1n64_m0, 7, bvd1(64), 0, wit_con1);
h_resize!(c07_q_resize_bvd1n64_m63, 7, bvd1(64), 63, wit_con1);
h_resize!(c07_q_resize_bvd1n30_m7, 7, bvd1(30), 7, wit_con1);
h_resize!(c07_q_resize_bvd2n64_m128, 7, bvd2(64), 128, wit_con1);
h_resize!(c07_q_resize_bvd2n65_m64, 7, bvd2(65), 64, wit_con1);
h_resize!(c07_q_resize_bvd2n128_m129, 7, bvd2(128), 129, wit_con1);
h_resize!(c07_q_resize_bvd2n128_m192, 7, bvd2(128), 192, wit_con1);
h_resize!(c07_q_resize_bvd2n100_m30, 7, bvd2(100), 30, wit_con1);
h_resize!(c07_q_resize_bvd2n128_m0, 7, bvd2(128), 0, wit_con1);
h_resize!(c07_q_resize_bvd2n70_m64, 7, bvd2(70), 64, wit_con1);
h_resize!(c07_q_resize_bvd3n130_m60, 7, bvd3(130), 60, wit_con1);
h_resize!(c07_q_resize_bvd3n192_m1, 7, bvd3(192), 1, wit_con1);
h_resize!(c07_q_resize_bvd3n10_m192, 7, bvd3(10), 192, wit_con1);
h_resize!(c07_q_resize_bvd3n129_m128, 7, bvd3(129), 128, wit_con1);
h_resize!(c07_q_resize_bvd3n64_m192, 7, bvd3(64), 192, wit_con1);
h_resize!(c07_q_resize_bvd0n0_m0, 7, bvd0(0), 0, wit_con1);
h_resize!(c07_q_resize_bvd0n0_m70, 7, bvd0(0), 70, wit_con1);
h_resize!(c07_q_resize_bvfixn0_m128, 7, bvfix(0), 128, wit_con1);
h_resize!(c07_q_resize_bvfixn100_m128, 7, bvfix(100), 128, wit_con1);
h_resize!(c07_q_resize_bvfixn128_m129, 7, bvfix(128), 129, wit_con1);
h_resize!(c07_q_resize_bvfixn0_m129, 7, bvfix(0), 129, wit_con1);
h_resize!(c07_q_resize_bvfixn5_m192, 7, bvfix(5), 192, wit_con1);
h_resize!(c07_q_resize_bvfixn128_m0, 7, bvfix(128), 0, wit_con1);
h_resize!(c07_q_resize_bvfixn128_m127, 7, bvfix(128), 127, wit_con1);
h_resize!(c07_q_resize_bvfixn64_m64, 7, bvfix(64), 64, wit_con1);
h_resize!(c07_q_resize_bvfixn100_m130, 7, bvfix(100), 130, wit_con1);
h_resize!(c07_q_resize_bvdyn2n100_m50, 7, bvdyn2(100), 50, wit_con1);
h_resize!(c07_q_resize_bvdyn2n50_m128, 7, bvdyn2(50), 128, wit_con1);
h_resize!(c07_q_resize_bvdyn3n192_m0, 7, bvdyn3(192), 0, wit_con1);
h_resize!(c07_q_resize_bvdyn3n130_m128, 7, bvdyn3(130), 128, wit_con1);
h_resize!(c07_q_resize_bvdyn3n129_m192, 7, bvdyn3(129), 192, wit_con1);
h_resize!(c07_t_resize_bvd1n0_m63, 7, bvd1(0), 63, wit_con1);
h_resize!(c07_t_resize_bvd1n0_m127, 7, bvd1(0), 127, wit_con1);
h_resize!(c07_t_resize_bvd1n0_m128, 7, bvd1(0), 128, wit_con1);
h_resize!(c07_t_resize_bvd1n0_m129, 7, bvd1(0), 129, wit_con1);
h_resize!(c07_t_resize_bvd1n0_m192, 7, bvd1(0), 192, wit_con1);
h_resize!(c07_t_resize_bvd1n1_m0, 7, bvd1(1), 0, wit_con1);
h_resize!(c07_t_resize_bvd1n1_m1, 7, bvd1(1), 1, wit_con1);
h_resize!(c07_t_resize_bvd1n1_m63, 7, bvd1(1), 63, wit_con1);
h_resize!(c07_t_resize_bvd1n1_m64, 7, bvd1(1), 64, wit_con1);
h_resize!(c07_t_resize_bvd1n1_m65, 7, bvd1(1), 65, wit_con1);
h_resize!(c07_t_resize_bvd1n1_m127, 7, bvd1(1), 127, wit_con1);
h_resize!(c07_t_resize_bvd1n1_m128, 7, bvd1(1), 128, wit_con1);
h_resize!(c07_t_resize_bvd1n1_m129, 7, bvd1(1), 129, wit_con1);
h_resize!(c07_t_resize_bvd1n1_m192, 7, bvd1(1), 192, wit_con1);
h_resize!(c07_t_resize_bvd1n63_m0, 7, bvd1(63), 0, wit_con1);
h_resize!(c07_t_resize_bvd1n63_m1, 7, bvd1(63), 1, wit_con1);
h_resize!(c07_t_resize_bvd1n63_m63, 7, bvd1(63), 63, wit_con1);
h_resize!(c07_t_resize_bvd1n63_m65, 7, bvd1(63), 65, wit_con1);
h_resize!(c07_t_resize_bvd1n63_m127, 7, bvd1(63), 127, wit_con1);
h_resize!(c07_t_resize_bvd1n63_m128, 7, bvd1(63), 128, wit_con1);
h_resize!(c07_t_resize_bvd1n63_m129, 7, bvd1(63), 129, wit_con1);
h_resize!(c07_t_resize_bvd1n63_m192, 7, bvd1(63), 192, wit_con1);
h_resize!(c07_t_resize_bvd1n64_m1, 7, bvd1(64), 1, wit_con1);
h_resize!(c07_t_resize_bvd1n64_m64, 7, bvd1(64), 64, wit_con1);
h_resize!(c07_t_resize_bvd1n64_m127, 7, bvd1(64), 127, wit_con1);
h_resize!(c07_t_resize_bvd1n64_m129, 7, bvd1(64), 129, wit_con1);
h_resize!(c07_t_resize_bvd1n64_m192, 7, bvd1(64), 192, wit_con1);
h_resize!(c07_t_resize_bvd2n65_m0, 7, bvd2(65), 0, wit_con1);
h_resize!(c07_t_resize_bvd2n65_m1, 7, bvd2(65), 1, wit_con1);
h_resize!(c07_t_resize_bvd2n65_m63, 7, bvd2(65), 63, wit_con1);
h_resize!(c07_t_resize_bvd2n65_m65, 7, bvd2(65), 65, wit_con1);
h_resize!(c07_t_resize_bvd2n65_m127, 7, bvd2(65), 127, wit_con1);
h_resize!(c07_t_resize_bvd2n65_m128, 7, bvd2(65), 128, wit_con1);
h_resize!(c07_t_resize_bvd2n65_m129, 7, bvd2(65), 129, wit_con1);
h_resize!(c07_t_resize_bvd2n65_m192, 7, bvd2(65), 192, wit_con1);
h_resize!(c07_t_resize_bvd2n127_m0, 7, bvd2(127), 0, wit_con1);
h_resize!(c07_t_resize_bvd2n127_m1, 7, bvd2(127), 1, wit_con1);
h_resize!(c07_t_resize_bvd2n127_m63, 7, bvd2(127), 63, wit_con1);
h_resize!(c07_t_resize_bvd2n127_m64, 7, bvd2(127), 64, wit_con1);
h_resize!(c07_t_resize_bvd2n127_m65, 7, bvd2(127), 65, wit_con1);
h_resize!(c07_t_resize_bvd2n127_m127, 7, bvd2(127), 127, wit_con1);
h_resize!(c07_t_resize_bvd2n127_m128, 7, bvd2(127), 128, wit_con1);
h_resize!(c07_t_resize_bvd2n127_m129, 7, bvd2(127), 129, wit_con1);
h_resize!(c07_t_resize_bvd2n127_m192, 7, bvd2(127), 192, wit_con1);
h_resize!(c07_t_resize_bvd2n128_m1, 7, bvd2(128), 1, wit_con1);
h_resize!(c07_t_resize_bvd2n128_m63, 7, bvd2(128), 63, wit_con1);
h_resize!(c07_t_resize_bvd2n128_m64, 7, bvd2(128), 64, wit_con1);
h_resize!(c07_t_resize_bvd2n128_m65, 7, bvd2(128), 65, wit_con1);
h_resize!(c07_t_resize_bvd2n128_m127, 7, bvd2(128), 127, wit_con1);
h_resize!(c07_t_resize_bvd2n128_m128, 7, bvd2(128), 128, wit_con1);
h_resize!(c07_t_resize_bvfixn1_m127, 7, bvfix(1), 127, wit_con1);
h_resize!(c07_t_resize_bvfixn127_m129, 7, bvfix(127), 129, wit_con1);
h_resize!(c07_t_resize_bvfixn128_m130, 7, bvfix(128), 130, wit_con1);
h_resize!(c07_t_resize_bvfixn3_m200, 7, bvfix(3), 200, wit_con1);
h_resize!(c07_t_resize_bvfixn128_m64, 7, bvfix(128), 64, wit_con1);

h_truncate!(c07_q_truncate_bvd3n130_m60, 7, bvd3(130), 60, wit_con1);
h_truncate!(c07_q_truncate_bvd2n128_m64, 7, bvd2(128), 64, wit_con1);
h_truncate!(c07_q_truncate_bvd2n65_m64, 7, bvd2(65), 64, wit_con1);
h_truncate!(c07_q_truncate_bvd1n64_m0, 7, bvd1(64), 0, wit_con1);
h_truncate!(c07_q_truncate_bvd2n70_m70, 7, bvd2(70), 70, wit_con1);
h_truncate!(c07_q_truncate_bvd1n10_m200, 7, bvd1(10), 200, wit_con1);
h_truncate!(c07_q_truncate_bvfixn100_m50, 7, bvfix(100), 50, wit_con1);
h_truncate!(c07_q_truncate_bvdyn3n130_m128, 7, bvdyn3(130), 128, wit_con1);
h_truncate!(c07_q_truncate_bvdyn3n130_m200, 7, bvdyn3(130), 200, wit_con1);
h_truncate!(c07_t_truncate_bvd3n192_m191, 7, bvd3(192), 191, wit_con1);
h_truncate!(c07_t_truncate_bvfixn128_m0, 7, bvfix(128), 0, wit_con1);
h_sign_extend!(c07_q_signext_bvd1n60_m130, 7, bvd1(60), 130, wit_con1);
h_sign_extend!(c07_q_signext_bvd1n64_m65, 7, bvd1(64), 65, wit_con1);
h_sign_extend!(c07_q_signext_bvd2n64_m128, 7, bvd2(64), 128, wit_con1);
h_sign_extend!(c07_q_signext_bvd1n0_m70, 7, bvd1(0), 70, wit_con1);
h_sign_extend!(c07_q_signext_bvd2n128_m192, 7, bvd2(128), 192, wit_con1);
h_sign_extend!(c07_q_signext_bvd2n100_m50, 7, bvd2(100), 50, wit_con1);
h_sign_extend!(c07_q_signext_bvd1n1_m64, 7, bvd1(1), 64, wit_con1);
h_sign_extend!(c07_q_signext_bvfixn100_m128, 7, bvfix(100), 128, wit_con1);
h_sign_extend!(c07_q_signext_bvfixn128_m130, 7, bvfix(128), 130, wit_con1);
h_sign_extend!(c07_q_signext_bvfixn0_m129, 7, bvfix(0), 129, wit_con1);
h_sign_extend!(c07_q_signext_bvdyn3n100_m192, 7, bvdyn3(100), 192, wit_con1);
h_sign_extend!(c07_q_signext_bvdyn3n129_m100, 7, bvdyn3(129), 100, wit_con1);
h_sign_extend!(c07_t_signext_bvd3n65_m192, 7, bvd3(65), 192, wit_con1);
h_sign_extend!(c07_t_signext_bvfixn1_m192, 7, bvfix(1), 192, wit_con1);
h_sign_extend!(c07_t_signext_bvdyn3n128_m129, 7, bvdyn3(128), 129, wit_con1);

h_append!(c07_q_append_bvd1n60_f8x2n10, 12, bvd1(60), f8x2(10), 256, wit_con2);
h_append!(c07_q_append_bvd1n64_bvd2n100, 12, bvd1(64), bvd2(100), 256, wit_con2);
h_append!(c07_q_append_bvd1n0_f8x2n0, 12, bvd1(0), f8x2(0), 256, wit_con2);
h_append!(c07_q_append_bvd1n0_f64x2n128, 12, bvd1(0), f64x2(128), 256, wit_con2);
h_append!(c07_q_append_bvd1n64_f8x1n0, 12, bvd1(64), f8x1(0), 256, wit_con2);
h_append!(c07_q_append_bvd0n0_f8x2n16, 12, bvd0(0), f8x2(16), 256, wit_con2);
h_append!(c07_q_append_bvd2n64_f64x2n64, 12, bvd2(64), f64x2(64), 256, wit_con2);
h_append!(c07_q_append_bvd2n70_bvfixn50, 12, bvd2(70), bvfix(50), 256, wit_con2);
h_append!(c07_q_append_bvd2n128_f8x1n1, 12, bvd2(128), f8x1(1), 256, wit_con2);
h_append!(c07_q_append_bvd2n127_bvdyn2n65, 12, bvd2(127), bvdyn2(65), 256, wit_con2);
h_append!(c07_q_append_bvd3n1_bvd3n191, 12, bvd3(1), bvd3(191), 256, wit_con2);
h_append!(c07_q_append_bvd1n63_f16x2n17, 12, bvd1(63), f16x2(17), 256, wit_con2);
h_append!(c07_q_append_bvd3n128_f64x1n64, 12, bvd3(128), f64x1(64), 256, wit_con2);
h_append!(c07_q_append_bvd1n1_bvd1n63, 12, bvd1(1), bvd1(63), 256, wit_con2);
h_append!(c07_q_append_bvfixn120_f8x2n16, 20, bvfix(120), f8x2(16), 256, wit_con2);
h_append!(c07_q_append_bvfixn100_f8x2n16, 20, bvfix(100), f8x2(16), 256, wit_con2);
h_append!(c07_t_append_bvfixn128_f8x1n1, 20, bvfix(128), f8x1(1), 256, wit_con2);
h_append!(c07_q_append_bvfixn128_bvfixn0, 20, bvfix(128), bvfix(0), 256, wit_con2);
h_append!(c07_q_append_bvfixn0_bvdyn3n129, 20, bvfix(0), bvdyn3(129), 256, wit_con2);
h_append!(c07_q_append_bvfixn64_bvfixn64, 20, bvfix(64), bvfix(64), 256, wit_con2);
h_append!(c07_q_append_bvfixn64_f64x2n65, 20, bvfix(64), f64x2(65), 256, wit_con2);
h_append!(c07_q_append_bvfixn0_f8x1n0, 20, bvfix(0), f8x1(0), 256, wit_con2);
h_append!(c07_q_append_bvdyn2n100_bvfixn28, 12, bvdyn2(100), bvfix(28), 256, wit_con2);
h_append!(c07_q_append_bvdyn3n128_bvd1n64, 12, bvdyn3(128), bvd1(64), 256, wit_con2);
h_append!(c07_q_append_bvdyn3n129_f8x3n24, 12, bvdyn3(129), f8x3(24), 256, wit_con2);
h_append!(c07_q_append_bvfixn127_bvd1n2, 20, bvfix(127), bvd1(2), 256, wit_con2);
h_append!(c07_t_append_bvd1n0_f8x2n0, 12, bvd1(0), f8x2(0), 256, wit_con2);
h_append!(c07_t_append_bvd1n0_f8x1n1, 12, bvd1(0), f8x1(1), 256, wit_con2);
h_append!(c07_t_append_bvd1n0_f8x2n7, 12, bvd1(0), f8x2(7), 256, wit_con2);
h_append!(c07_t_append_bvd1n0_f8x2n8, 12, bvd1(0), f8x2(8), 256, wit_con2);
h_append!(c07_t_append_bvd1n0_f16x1n9, 12, bvd1(0), f16x1(9), 256, wit_con2);
h_append!(c07_t_append_bvd1n0_bvd1n63, 12, bvd1(0), bvd1(63), 256, wit_con2);
h_append!(c07_t_append_bvd1n0_f64x1n64, 12, bvd1(0), f64x1(64), 256, wit_con2);
h_append!(c07_t_append_bvd1n0_bvfixn65, 12, bvd1(0), bvfix(65), 256, wit_con2);
h_append!(c07_t_append_bvd1n0_f64x2n128, 12, bvd1(0), f64x2(128), 256, wit_con2);
h_append!(c07_t_append_bvd1n1_f8x2n0, 12, bvd1(1), f8x2(0), 256, wit_con2);
h_append!(c07_t_append_bvd1n1_f8x1n1, 12, bvd1(1), f8x1(1), 256, wit_con2);
h_append!(c07_t_append_bvd1n1_f8x2n7, 12, bvd1(1), f8x2(7), 256, wit_con2);
h_append!(c07_t_append_bvd1n1_f8x2n8, 12, bvd1(1), f8x2(8), 256, wit_con2);
h_append!(c07_t_append_bvd1n1_f16x1n9, 12, bvd1(1), f16x1(9), 256, wit_con2);
h_append!(c07_t_append_bvd1n1_bvd1n63, 12, bvd1(1), bvd1(63), 256, wit_con2);
h_append!(c07_t_append_bvd1n1_f64x1n64, 12, bvd1(1), f64x1(64), 256, wit_con2);
h_append!(c07_t_append_bvd1n1_bvfixn65, 12, bvd1(1), bvfix(65), 256, wit_con2);
h_append!(c07_t_append_bvd1n1_f64x2n128, 12, bvd1(1), f64x2(128), 256, wit_con2);
h_append!(c07_t_append_bvd1n63_f8x2n0, 12, bvd1(63), f8x2(0), 256, wit_con2);
h_append!(c07_t_append_bvd1n63_f8x1n1, 12, bvd1(63), f8x1(1), 256, wit_con2);
h_append!(c07_t_append_bvd1n63_f8x2n7, 12, bvd1(63), f8x2(7), 256, wit_con2);
h_append!(c07_t_append_bvd1n63_f8x2n8, 12, bvd1(63), f8x2(8), 256, wit_con2);
h_append!(c07_t_append_bvd1n63_f16x1n9, 12, bvd1(63), f16x1(9), 256, wit_con2);
h_append!(c07_t_append_bvd1n63_bvd1n63, 12, bvd1(63), bvd1(63), 256, wit_con2);
h_append!(c07_t_append_bvd1n63_f64x1n64, 12, bvd1(63), f64x1(64), 256, wit_con2);
h_append!(c07_t_append_bvd1n63_bvfixn65, 12, bvd1(63), bvfix(65), 256, wit_con2);
h_append!(c07_t_append_bvd1n63_f64x2n128, 12, bvd1(63), f64x2(128), 256, wit_con2);
h_append!(c07_t_append_bvd1n64_f8x2n0, 12, bvd1(64), f8x2(0), 256, wit_con2);
h_append!(c07_t_append_bvd1n64_f8x1n1, 12, bvd1(64), f8x1(1), 256, wit_con2);
h_append!(c07_t_append_bvd1n64_f8x2n7, 12, bvd1(64), f8x2(7), 256, wit_con2);
h_append!(c07_t_append_bvd1n64_f8x2n8, 12, bvd1(64), f8x2(8), 256, wit_con2);
h_append!(c07_t_append_bvd1n64_f16x1n9, 12, bvd1(64), f16x1(9), 256, wit_con2);
h_append!(c07_t_append_bvd1n64_bvd1n63, 12, bvd1(64), bvd1(63), 256, wit_con2);
h_append!(c07_t_append_bvd1n64_f64x1n64, 12, bvd1(64), f64x1(64), 256, wit_con2);
h_append!(c07_t_append_bvd1n64_bvfixn65, 12, bvd1(64), bvfix(65), 256, wit_con2);
h_append!(c07_t_append_bvd1n64_f64x2n128, 12, bvd1(64), f64x2(128), 256, wit_con2);
h_append!(c07_t_append_bvd2n65_f8x2n0, 12, bvd2(65), f8x2(0), 256, wit_con2);
h_append!(c07_t_append_bvd2n65_f8x1n1, 12, bvd2(65), f8x1(1), 256, wit_con2);
h_append!(c07_t_append_bvd2n65_f8x2n7, 12, bvd2(65), f8x2(7), 256, wit_con2);
h_append!(c07_t_append_bvd2n65_f8x2n8, 12, bvd2(65), f8x2(8), 256, wit_con2);
h_append!(c07_t_append_bvd2n65_f16x1n9, 12, bvd2(65), f16x1(9), 256, wit_con2);
h_append!(c07_t_append_bvd2n65_bvd1n63, 12, bvd2(65), bvd1(63), 256, wit_con2);
h_append!(c07_t_append_bvd2n65_f64x1n64, 12, bvd2(65), f64x1(64), 256, wit_con2);
h_append!(c07_t_append_bvd2n65_bvfixn65, 12, bvd2(65), bvfix(65), 256, wit_con2);
h_append!(c07_t_append_bvd2n65_f64x2n128, 12, bvd2(65), f64x2(128), 256, wit_con2);
h_append!(c07_t_append_bvd2n127_f8x2n0, 12, bvd2(127), f8x2(0), 256, wit_con2);
h_append!(c07_t_append_bvd2n127_f8x1n1, 12, bvd2(127), f8x1(1), 256, wit_con2);
h_append!(c07_t_append_bvd2n127_f8x2n7, 12, bvd2(127), f8x2(7), 256, wit_con2);
h_append!(c07_t_append_bvd2n127_f8x2n8, 12, bvd2(127), f8x2(8), 256, wit_con2);
h_append!(c07_t_append_bvd2n127_f16x1n9, 12, bvd2(127), f16x1(9), 256, wit_con2);
h_append!(c07_t_append_bvd2n127_bvd1n63, 12, bvd2(127), bvd1(63), 256, wit_con2);
h_append!(c07_t_append_bvd2n127_f64x1n64, 12, bvd2(127), f64x1(64), 256, wit_con2);
h_append!(c07_t_append_bvd2n127_bvfixn65, 12, bvd2(127), bvfix(65), 256, wit_con2);
h_append!(c07_t_append_bvd2n127_f64x2n128, 12, bvd2(127), f64x2(128), 256, wit_con2);
h_append!(c07_t_append_bvd2n128_f8x2n0, 12, bvd2(128), f8x2(0), 256, wit_con2);
h_append!(c07_t_append_bvd2n128_f8x1n1, 12, bvd2(128), f8x1(1), 256, wit_con2);
h_append!(c07_t_append_bvd2n128_f8x2n7, 12, bvd2(128), f8x2(7), 256, wit_con2);
h_append!(c07_t_append_bvd2n128_f8x2n8, 12, bvd2(128), f8x2(8), 256, wit_con2);
h_append!(c07_t_append_bvd2n128_f16x1n9, 12, bvd2(128), f16x1(9), 256, wit_con2);
h_append!(c07_t_append_bvd2n128_bvd1n63, 12, bvd2(128), bvd1(63), 256, wit_con2);
h_append!(c07_t_append_bvd2n128_f64x1n64, 12, bvd2(128), f64x1(64), 256, wit_con2);
h_append!(c07_t_append_bvd2n128_bvfixn65, 12, bvd2(128), bvfix(65), 256, wit_con2);
h_append!(c07_t_append_bvd2n128_f64x2n128, 12, bvd2(128), f64x2(128), 256, wit_con2);
h_append!(c07_t_append_bvfixn1_f64x2n127, 20, bvfix(1), f64x2(127), 256, wit_con2);
h_append!(c07_t_append_bvfixn1_f64x2n128, 20, bvfix(1), f64x2(128), 256, wit_con2);
h_append!(c07_t_append_bvfixn121_f8x1n7, 20, bvfix(121), f8x1(7), 256, wit_con2);
h_append!(c07_t_append_bvfixn121_f8x1n8, 20, bvfix(121), f8x1(8), 256, wit_con2);
h_append!(c07_t_append_bvfixn64_bvd1n64, 20, bvfix(64), bvd1(64), 256, wit_con2);
h_append!(c07_t_append_bvfixn65_bvd1n64, 20, bvfix(65), bvd1(64), 256, wit_con2);
h_append!(c07_t_append_bvfixn128_f64x3n64, 20, bvfix(128), f64x3(64), 256, wit_con2);

h_prepend!(c07_q_prepend_bvd1n60_f8x2n10, 12, bvd1(60), f8x2(10), 256, wit_con2);
h_prepend!(c07_q_prepend_bvd1n64_bvd2n100, 12, bvd1(64), bvd2(100), 256, wit_con2);
h_prepend!(c07_q_prepend_bvd1n0_f8x2n0, 12, bvd1(0), f8x2(0), 256, wit_con2);
h_prepend!(c07_q_prepend_bvd1n0_f64x2n128, 12, bvd1(0), f64x2(128), 256, wit_con2);
h_prepend!(c07_q_prepend_bvd1n64_f8x1n0, 12, bvd1(64), f8x1(0), 256, wit_con2);
h_prepend!(c07_q_prepend_bvd0n0_f8x2n16, 12, bvd0(0), f8x2(16), 256, wit_con2);
h_prepend!(c07_q_prepend_bvd2n64_f64x2n64, 12, bvd2(64), f64x2(64), 256, wit_con2);
h_prepend!(c07_q_prepend_bvd2n70_bvfixn50, 12, bvd2(70), bvfix(50), 256, wit_con2);
h_prepend!(c07_q_prepend_bvd2n128_f8x1n1, 12, bvd2(128), f8x1(1), 256, wit_con2);
h_prepend!(c07_q_prepend_bvd2n127_bvdyn2n65, 12, bvd2(127), bvdyn2(65), 256, wit_con2);
h_prepend!(c07_q_prepend_bvd1n63_f16x2n17, 12, bvd1(63), f16x2(17), 256, wit_con2);
h_prepend!(c07_q_prepend_bvd3n100_f64x1n64, 12, bvd3(100), f64x1(64), 256, wit_con2);
h_prepend!(c07_q_prepend_bvfixn120_f8x2n16, 20, bvfix(120), f8x2(16), 256, wit_con2);
h_prepend!(c07_q_prepend_bvfixn100_f8x2n16, 20, bvfix(100), f8x2(16), 256, wit_con2);
h_prepend!(c07_q_prepend_bvfixn128_f8x1n1, 20, bvfix(128), f8x1(1), 256, wit_con2);
h_prepend!(c07_q_prepend_bvfixn5_bvdyn3n130, 20, bvfix(5), bvdyn3(130), 256, wit_con2);
h_prepend!(c07_q_prepend_bvfixn0_f8x2n0, 20, bvfix(0), f8x2(0), 256, wit_con2);
h_prepend!(c07_q_prepend_bvfixn128_bvd1n0, 20, bvfix(128), bvd1(0), 256, wit_con2);
h_prepend!(c07_q_prepend_bvfixn64_bvfixn64, 20, bvfix(64), bvfix(64), 256, wit_con2);
h_prepend!(c07_t_prepend_bvd1n0_f8x1n1, 12, bvd1(0), f8x1(1), 256, wit_con2);
h_prepend!(c07_t_prepend_bvd1n0_f8x2n7, 12, bvd1(0), f8x2(7), 256, wit_con2);
h_prepend!(c07_t_prepend_bvd1n0_f8x2n8, 12, bvd1(0), f8x2(8), 256, wit_con2);
h_prepend!(c07_t_prepend_bvd1n0_bvd1n63, 12, bvd1(0), bvd1(63), 256, wit_con2);
h_prepend!(c07_t_prepend_bvd1n0_f64x1n64, 12, bvd1(0), f64x1(64), 256, wit_con2);
h_prepend!(c07_t_prepend_bvd1n0_bvfixn65, 12, bvd1(0), bvfix(65), 256, wit_con2);
h_prepend!(c07_t_prepend_bvd1n1_f8x1n1, 12, bvd1(1), f8x1(1), 256, wit_con2);
h_prepend!(c07_t_prepend_bvd1n1_f8x2n7, 12, bvd1(1), f8x2(7), 256, wit_con2);
h_prepend!(c07_t_prepend_bvd1n1_f8x2n8, 12, bvd1(1), f8x2(8), 256, wit_con2);
h_prepend!(c07_t_prepend_bvd1n1_bvd1n63, 12, bvd1(1), bvd1(63), 256, wit_con2);
h_prepend!(c07_t_prepend_bvd1n1_f64x1n64, 12, bvd1(1), f64x1(64), 256, wit_con2);
h_prepend!(c07_t_prepend_bvd1n1_bvfixn65, 12, bvd1(1), bvfix(65), 256, wit_con2);
h_prepend!(c07_t_prepend_bvd1n1_f64x2n128, 12, bvd1(1), f64x2(128), 256, wit_con2);
h_prepend!(c07_t_prepend_bvd1n63_f8x1n1, 12, bvd1(63), f8x1(1), 256, wit_con2);
h_prepend!(c07_t_prepend_bvd1n63_f8x2n7, 12, bvd1(63), f8x2(7), 256, wit_con2);
h_prepend!(c07_t_prepend_bvd1n63_f8x2n8, 12, bvd1(63), f8x2(8), 256, wit_con2);
h_prepend!(c07_t_prepend_bvd1n63_bvd1n63, 12, bvd1(63), bvd1(63), 256, wit_con2);
h_prepend!(c07_t_prepend_bvd1n63_f64x1n64, 12, bvd1(63), f64x1(64), 256, wit_con2);
h_prepend!(c07_t_prepend_bvd1n63_bvfixn65, 12, bvd1(63), bvfix(65), 256, wit_con2);
h_prepend!(c07_t_prepend_bvd1n63_f64x2n128, 12, bvd1(63), f64x2(128), 256, wit_con2);
h_prepend!(c07_t_prepend_bvd1n64_f8x1n1, 12, bvd1(64), f8x1(1), 256, wit_con2);
h_prepend!(c07_t_prepend_bvd1n64_f8x2n7, 12, bvd1(64), f8x2(7), 256, wit_con2);
h_prepend!(c07_t_prepend_bvd1n64_f8x2n8, 12, bvd1(64), f8x2(8), 256, wit_con2);
h_prepend!(c07_t_prepend_bvd1n64_bvd1n63, 12, bvd1(64), bvd1(63), 256, wit_con2);
h_prepend!(c07_t_prepend_bvd1n64_f64x1n64, 12, bvd1(64), f64x1(64), 256, wit_con2);
h_prepend!(c07_t_prepend_bvd1n64_bvfixn65, 12, bvd1(64), bvfix(65), 256, wit_con2);
h_prepend!(c07_t_prepend_bvd1n64_f64x2n128, 12, bvd1(64), f64x2(128), 256, wit_con2);
h_prepend!(c07_t_prepend_bvd2n65_f8x1n1, 12, bvd2(65), f8x1(1), 256, wit_con2);
h_prepend!(c07_t_prepend_bvd2n65_f8x2n7, 12, bvd2(65), f8x2(7), 256, wit_con2);
h_prepend!(c07_t_prepend_bvd2n65_f8x2n8, 12, bvd2(65), f8x2(8), 256, wit_con2);
h_prepend!(c07_t_prepend_bvd2n65_bvd1n63, 12, bvd2(65), bvd1(63), 256, wit_con2);
h_prepend!(c07_t_prepend_bvd2n65_f64x1n64, 12, bvd2(65), f64x1(64), 256, wit_con2);
h_prepend!(c07_t_prepend_bvd2n65_bvfixn65, 12, bvd2(65), bvfix(65), 256, wit_con2);
h_prepend!(c07_t_prepend_bvd2n65_f64x2n128, 12, bvd2(65), f64x2(128), 256, wit_con2);
h_prepend!(c07_t_prepend_bvd2n128_f8x2n7, 12, bvd2(128), f8x2(7), 256, wit_con2);
h_prepend!(c07_t_prepend_bvd2n128_f8x2n8, 12, bvd2(128), f8x2(8), 256, wit_con2);
h_prepend!(c07_t_prepend_bvd2n128_bvd1n63, 12, bvd2(128), bvd1(63), 256, wit_con2);
h_prepend!(c07_t_prepend_bvd2n128_f64x1n64, 12, bvd2(128), f64x1(64), 256, wit_con2);
h_prepend!(c07_t_prepend_bvd2n128_bvfixn65, 12, bvd2(128), bvfix(65), 256, wit_con2);
h_prepend!(c07_t_prepend_bvd2n128_f64x2n128, 12, bvd2(128), f64x2(128), 256, wit_con2);
h_prepend!(c07_t_prepend_bvfixn1_f64x2n127, 20, bvfix(1), f64x2(127), 256, wit_con2);
h_prepend!(c07_t_prepend_bvfixn1_f64x2n128, 20, bvfix(1), f64x2(128), 256, wit_con2);
h_prepend!(c07_t_prepend_bvfixn121_f8x1n7, 20, bvfix(121), f8x1(7), 256, wit_con2);
h_prepend!(c07_t_prepend_bvfixn121_f8x1n8, 20, bvfix(121), f8x1(8), 256, wit_con2);
h_prepend!(c07_t_prepend_bvfixn65_bvd1n64, 20, bvfix(65), bvd1(64), 256, wit_con2);

h_insert!(c07_q_insert_bvd1n60_i30_f8x2n10, 12, bvd1(60), 30, f8x2(10), 256, wit_ins_con);
h_insert!(c07_q_insert_bvd1n64_i0_bvd1n64, 12, bvd1(64), 0, bvd1(64), 256, wit_ins_con);
h_insert!(c07_q_insert_bvd2n128_i64_f64x1n64, 12, bvd2(128), 64, f64x1(64), 256, wit_ins_con);
h_insert!(c07_q_insert_bvd2n100_i100_f8x3n24, 12, bvd2(100), 100, f8x3(24), 256, wit_ins_con);
h_insert!(c07_q_insert_bvd2n70_i65_bvfixn0, 12, bvd2(70), 65, bvfix(0), 256, wit_ins_con);
h_insert!(c07_q_insert_bvd3n130_i1_f16x2n31, 12, bvd3(130), 1, f16x2(31), 256, wit_ins_con);
h_insert!(c07_q_insert_bvd1n0_i0_f8x2n9, 12, bvd1(0), 0, f8x2(9), 256, wit_ins_con);
h_insert!(c07_q_insert_bvfixn120_i60_f8x2n16, 20, bvfix(120), 60, f8x2(16), 256, wit_ins_con);
h_insert!(c07_q_insert_bvfixn100_i37_f8x1n3, 20, bvfix(100), 37, f8x1(3), 256, wit_ins_con);
h_insert!(c07_t_insert_bvfixn100_i37_f8x2n16, 20, bvfix(100), 37, f8x2(16), 256, wit_ins_con);
h_insert!(c07_q_insert_bvfixn128_i128_f8x1n1, 20, bvfix(128), 128, f8x1(1), 256, wit_ins_con);
h_insert!(c07_q_insert_bvfixn128_i0_f8x1n1, 20, bvfix(128), 0, f8x1(1), 256, wit_ins_con);
h_insert!(c07_q_insert_bvdyn2n100_i100_f8x2n0, 12, bvdyn2(100), 100, f8x2(0), 256, wit_ins_con);
h_insert!(c07_t_insert_bvd2n128_i127_bvd1n64, 12, bvd2(128), 127, bvd1(64), 256, wit_ins_con);
h_insert!(c07_t_insert_bvd1n64_i64_f64x2n128, 12, bvd1(64), 64, f64x2(128), 256, wit_ins_con);
h_insert!(c07_t_insert_bvfixn64_i64_bvdyn3n129, 20, bvfix(64), 64, bvdyn3(129), 256, wit_ins_con);
h_insert!(c07_t_insert_bvfixn128_i64_bvfixn0, 20, bvfix(128), 64, bvfix(0), 256, wit_ins_con);
h_insert!(c07_q_insert_f64x2n100_i37_f8x2n16, 20, f64x2(100), 37, f8x2(16), 128, wit_ins_con);
h_insert!(c07_q_insert_f64x2n64_i64_f64x1n64, 20, f64x2(64), 64, f64x1(64), 128, wit_ins_con);
h_insert!(c07_t_insert_f64x2n112_i64_f8x2n16, 20, f64x2(112), 64, f8x2(16), 128, wit_ins_con);
h_insert!(c07_t_insert_f64x2n127_i1_f8x1n1, 20, f64x2(127), 1, f8x1(1), 128, wit_ins_con);
h_insert!(c07_t_insert_f64x2n0_i0_f64x2n128, 20, f64x2(0), 0, f64x2(128), 128, wit_ins_con);
h_insert!(c07_t_insert_f64x2n65_i64_bvd1n63, 20, f64x2(65), 64, bvd1(63), 128, wit_ins_con);

h_extend_bits!(c07_q_extend_bvd1n62_k4, 8, bvd1(62), 4, 256, wit_con1);
h_extend_bits!(c07_q_extend_bvd1n0_k0, 4, bvd1(0), 0, 256, wit_con1);
h_extend_bits!(c07_q_extend_bvd2n64_k8, 12, bvd2(64), 8, 256, wit_con1);
h_extend_bits!(c07_q_extend_bvd2n125_k8, 12, bvd2(125), 8, 256, wit_con1);
h_extend_bits!(c07_q_extend_bvd0n0_k3, 7, bvd0(0), 3, 256, wit_con1);
h_extend_bits!(c07_q_extend_bvfixn120_k8, 12, bvfix(120), 8, 256, wit_con1);
h_extend_bits!(c07_q_extend_bvfixn128_k1, 5, bvfix(128), 1, 256, wit_con1);
h_extend_bits!(c07_q_extend_bvfixn0_k0, 4, bvfix(0), 0, 256, wit_con1);
h_extend_bits!(c07_t_extend_bvd1n64_k1, 5, bvd1(64), 1, 256, wit_con1);
h_extend_bits!(c07_t_extend_bvd3n190_k8, 12, bvd3(190), 8, 256, wit_con1);
h_extend_bits!(c07_t_extend_bvfixn100_k8, 12, bvfix(100), 8, 256, wit_con1);
h_extend_iter!(c07_q_extend_bvd1n60_f8x2n10, 14, bvd1(60), f8x2(10), 256, wit_con2);
h_extend_iter!(c07_q_extend_bvd2n120_bvd1n9, 13, bvd2(120), bvd1(9), 256, wit_con2);
h_extend_iter!(c07_q_extend_bvfixn110_f8x2n10, 14, bvfix(110), f8x2(10), 256, wit_con2);
h_extend_iter!(c07_t_extend_bvd1n64_bvfixn3, 7, bvd1(64), bvfix(3), 256, wit_con2);

// ---- extend / collect from an iterator that under-reports its length (size_hint().0 == 0) -------
// The dynamic and auto types must still grow as far as the iterator really goes, including the
// inline -> heap switch of `Bv`, whatever `size_hint` says.
macro_rules! h_extend_nohint {
    ($name:ident, $unw:literal, $a:expr, $x:expr) => {
        harness_cfs!($name, $unw, {
            let (mut a, ra) = $a;
            let (x, rx) = $x;
            let n = ra.len;
            let k = rx.len;
            w!(k > 0 && rx.v.bit(k - 1), "last extended bit is one");
            a.extend(x.iter().filter(|_| true));
            let r = a.into_raw();
            assert!(r.len == n + k, "C07: extend (no size hint): length != len + number of bits");
            assert!(r.v == ra.v.or(rx.v.shl(n)), "C07: extend (no size hint): storage != v | bits << len");
            assert!(r.len <= r.cap, "C07: len > capacity");
        });
    };
}
h_extend_nohint!(c07_q_extendnohint_f8x2n10_f8x1n5, 8, f8x2(10), f8x1(5));
h_extend_nohint!(c07_q_extendnohint_bvfixn128_f8x1n1, 8, bvfix(128), f8x1(1));
h_extend_nohint!(c07_q_extendnohint_bvfixn120_f8x1n8, 12, bvfix(120), f8x1(8));
h_extend_nohint!(c07_q_extendnohint_bvd1n64_f8x1n1, 8, bvd1(64), f8x1(1));
h_extend_nohint!(c07_t_extendnohint_bvfixn127_f8x1n2, 8, bvfix(127), f8x1(2));
h_extend_nohint!(c07_t_extendnohint_bvd1n60_f8x1n8, 12, bvd1(60), f8x1(8));
