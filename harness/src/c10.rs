//! C10 — equal vectors hash equally (Hash is consistent with Eq), within each type.
//!
//! Oracle: a *recording* `Hasher` logs every call the `Hash` impl makes (which `write_*`
//! method, with which value, in which order). For two vectors `a`, `b` of the same type whose
//! model values are equal (`val(a) == val(b)`, assumed on the raw storage returned by the
//! generators, *not* through the crate's `==`; C09 shows that this is exactly when `a == b`)
//! the two logs must be identical. Every `Hasher` is a function of that call sequence, so
//! identical logs give identical `finish()` for every hasher, hence the HashMap/HashSet
//! consequence (stated, not re-verified: std's SipHash is not re-executed symbolically).
//! Lengths of the two operands are independent (equal and different), Bvd/Bv operands have
//! different numbers of allocated words (spare capacity), Bv is taken in all mode pairs.
use crate::big::Big;
use crate::nd;
use crate::scopes::*;
use bva::{Bit, BitVector, Bv, Bvd, Bvf};
use std::hash::{Hash, Hasher};

const K: usize = 6;

#[derive(Clone, Copy, PartialEq, Eq)]
struct Ev {
    /// 1..=6: write_u8/u16/u32/u64/u128/usize; 7: length of a raw `write`; 8: its first 16 bytes.
    kind: u8,
    val: u128,
}

/// Loop-free recording hasher with room for `K` events.
struct Rec {
    ev: [Ev; K],
    n: usize,
    overflow: bool,
}

impl Rec {
    #[inline(always)]
    fn new() -> Rec {
        Rec { ev: [Ev { kind: 0, val: 0 }; K], n: 0, overflow: false }
    }
    #[inline(always)]
    fn push(&mut self, kind: u8, val: u128) {
        if self.n < K {
            self.ev[self.n] = Ev { kind, val };
            self.n += 1;
        } else {
            self.overflow = true;
        }
    }
    /// Same call sequence (unused slots are zero in both).
    #[inline(always)]
    fn same(&self, o: &Rec) -> bool {
        self.n == o.n
            && self.ev[0] == o.ev[0]
            && self.ev[1] == o.ev[1]
            && self.ev[2] == o.ev[2]
            && self.ev[3] == o.ev[3]
            && self.ev[4] == o.ev[4]
            && self.ev[5] == o.ev[5]
    }
}

impl Hasher for Rec {
    fn finish(&self) -> u64 {
        0
    }
    fn write(&mut self, bytes: &[u8]) {
        // raw byte writes (not used by integer `Hash` impls today): length + first 16 bytes
        let g = |i: usize| -> u128 { (if i < bytes.len() { bytes[i] } else { 0 }) as u128 };
        let lo = g(0) | g(1) << 8 | g(2) << 16 | g(3) << 24 | g(4) << 32 | g(5) << 40 | g(6) << 48 | g(7) << 56;
        let hi = g(8) | g(9) << 8 | g(10) << 16 | g(11) << 24 | g(12) << 32 | g(13) << 40 | g(14) << 48 | g(15) << 56;
        if bytes.len() > 16 {
            self.overflow = true;
        }
        self.push(7, bytes.len() as u128);
        self.push(8, lo | hi << 64);
    }
    fn write_u8(&mut self, i: u8) {
        self.push(1, i as u128)
    }
    fn write_u16(&mut self, i: u16) {
        self.push(2, i as u128)
    }
    fn write_u32(&mut self, i: u32) {
        self.push(3, i as u128)
    }
    fn write_u64(&mut self, i: u64) {
        self.push(4, i as u128)
    }
    fn write_u128(&mut self, i: u128) {
        self.push(5, i)
    }
    fn write_usize(&mut self, i: usize) {
        self.push(6, i as u128)
    }
}

macro_rules! hash_body {
    ($a:expr, $b:expr, $spare:literal) => {
        let (a, ra) = $a;
        let (b, rb) = $b;
        // equal as numbers (the shorter one zero-extended): this is `a == b` by C09
        nd::assume(ra.v == rb.v);
        w!(ra.len != rb.len && !ra.v.is_zero(), "equal non-zero values of different lengths");
        w!(ra.v.is_zero() && ra.len == 0 && rb.len > 0, "empty vector against a longer all-zero vector");
        w!(ra.len == rb.len && !ra.v.is_zero(), "equal non-zero values of the same length");
        w!(ra.len > 0 && ra.v.sig() == ra.len && rb.len > ra.len, "top bit of the shorter operand set");
        w!((ra.cap != rb.cap) == $spare && !ra.v.is_zero(), "non-zero value; storage sizes differ iff the pairing has different allocations");
        let _sep = nd::bool(); // keeps counterexample traces distinct from witness traces (playback dedupe)
        let mut ha = Rec::new();
        let mut hb = Rec::new();
        a.hash(&mut ha);
        b.hash(&mut hb);
        assert!(!ha.overflow && !hb.overflow, "HARNESS: recording hasher overflowed");
        w!(ha.n > 0, "something was fed to the hasher");
        assert!(ha.same(&hb), "C10: equal values feed different data to the Hasher");
    };
}

/// Both operands have the same storage size.
macro_rules! h_hash {
    ($name:ident, $unw:literal, $a:expr, $b:expr) => {
        harness!($name, $unw, {
            hash_body!($a, $b, false);
        });
    };
}

/// Heap-backed / auto vectors whose storage sizes differ (spare words on one side).
macro_rules! h_hash_heap {
    ($name:ident, $unw:literal, $a:expr, $b:expr) => {
        harness!($name, $unw, {
            hash_body!($a, $b, true);
        });
    };
}

// ---- Bvf ---------------------------------------------------------------------------------
h_hash!(c10_q_hash_f8x2, 4, f8x2(anylen(16)), f8x2(anylen(16)));
h_hash!(c10_q_hash_f8x3, 5, f8x3(anylen(24)), f8x3(anylen(24)));
h_hash!(c10_q_hash_f16x2, 4, f16x2(anylen(32)), f16x2(anylen(32)));
h_hash!(c10_q_hash_f64x2, 4, f64x2(anylen(128)), f64x2(anylen(128)));
h_hash!(c10_q_hash_f64x3, 5, f64x3(anylen(192)), f64x3(anylen(192)));
h_hash!(c10_t_hash_f8x4, 6, f8x4(anylen(32)), f8x4(anylen(32)));
h_hash!(c10_t_hash_f16x1, 3, f16x1(anylen(16)), f16x1(anylen(16)));
h_hash!(c10_t_hash_f32x2, 4, f32x2(anylen(64)), f32x2(anylen(64)));
h_hash!(c10_t_hash_fuszx2, 4, fuszx2(anylen(128)), fuszx2(anylen(128)));
h_hash!(c10_t_hash_f128x2, 4, f128x2(anylen(256)), f128x2(anylen(256)));

// ---- Bvd: different numbers of allocated words (spare capacity) ------------------------------
h_hash_heap!(c10_q_hash_bvd1_bvd2, 4, bvd1(anylen(64)), bvd2(anylen(128)));
h_hash_heap!(c10_q_hash_bvd2_bvd3, 5, bvd2(anylen(128)), bvd3(anylen(192)));
h_hash!(c10_q_hash_bvd3_bvd3, 5, bvd3(anylen(192)), bvd3(anylen(192)));
h_hash_heap!(c10_q_hash_bvd3_bvd1, 5, bvd3(anylen(192)), bvd1(anylen(64)));
h_hash_heap!(c10_t_hash_bvd4_bvd2, 6, bvd4(anylen(256)), bvd2(anylen(128)));
h_hash!(c10_t_hash_bvd2_bvd2, 4, bvd2(anylen(128)), bvd2(anylen(128)));

// ---- Bv: all storage mode pairs --------------------------------------------------------------
h_hash!(c10_q_hash_bvfix_bvfix, 4, bvfix(anylen(128)), bvfix(anylen(128)));
h_hash!(c10_q_hash_bvfix_bvdyn2, 4, bvfix(anylen(128)), bvdyn2(anylen(128)));
h_hash_heap!(c10_q_hash_bvfix_bvdyn3, 5, bvfix(anylen(128)), bvdyn3(anylen(192)));
h_hash_heap!(c10_q_hash_bvdyn1_bvfix, 4, bvdyn1(anylen(64)), bvfix(anylen(128)));
h_hash_heap!(c10_q_hash_bvdyn2_bvdyn3, 5, bvdyn2(anylen(128)), bvdyn3(anylen(192)));
h_hash_heap!(c10_t_hash_bvdyn3_bvdyn1, 5, bvdyn3(anylen(192)), bvdyn1(anylen(64)));
h_hash!(c10_t_hash_bvdyn2_bvdyn2, 4, bvdyn2(anylen(128)), bvdyn2(anylen(128)));


// ---- the storage-less empty vector (zero allocated words) against other zeros -------------------
/// `Bvd::zeros(0)` / `with_capacity(0)` / `copy_range(k..k)` own no storage word at all; every
/// all-zero vector of any length and capacity equals it and must hash identically.
macro_rules! h_hash_nostorage {
    ($name:ident, $unw:literal, $a:expr, $b:expr) => {
        harness!($name, $unw, {
            let (a, ra) = $a;
            let (b, rb) = $b;
            nd::assume(ra.v.is_zero() && rb.v.is_zero());
            w!(rb.len > 0, "non-empty all-zero vector against the storage-less empty vector");
            w!(rb.len == 0, "two empty vectors with different allocations");
            let mut ha = Rec::new();
            let mut hb = Rec::new();
            a.hash(&mut ha);
            b.hash(&mut hb);
            assert!(!ha.overflow && !hb.overflow, "HARNESS: recording hasher overflowed");
            assert!(ha.same(&hb), "C10: equal (zero) values feed different data to the Hasher");
        });
    };
}
h_hash_nostorage!(c10_q_hash_bvd0_bvd1, 4, bvd0(0), bvd1(anylen(64)));
h_hash_nostorage!(c10_q_hash_bvd0_bvd3, 5, bvd0(0), bvd3(anylen(192)));
h_hash_nostorage!(c10_q_hash_bvdyn0_bvfix, 4, { let (b, r) = bvd0(0); (Bv::Dynamic(b), r) }, bvfix(anylen(128)));
h_hash_nostorage!(c10_q_hash_bvdyn0_bvdyn2, 4, { let (b, r) = bvd0(0); (Bv::Dynamic(b), r) }, bvdyn2(anylen(128)));
