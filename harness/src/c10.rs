//! C10 harnesses (not written yet).
