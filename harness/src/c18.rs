//! C18 — capacity management never changes the value; dynamic/auto never run out of room.
//!
//! Post-states are read from the raw storage (`into_raw()`): `(len, all storage bits, cap)`.
//! "Bits unchanged" is checked as equality of *all* storage bits with the pre-state value,
//! which includes "spare words are zero" (what later operations rely on).
//!
//! The "fresh capacity" of a length is fixed by formula (`fresh_bvd`, `fresh_bv`) and the
//! formula itself is checked against `zeros(n)` / `ones(n)` in the `fresh` harnesses.
//!
//! Every (re)allocation size must be a syntactic constant for CBMC, so lengths and amounts
//! are a concrete lattice around the 64-bit word boundaries and the inline limit (128);
//! contents are symbolic.
use crate::big::Big;
use crate::nd;
use crate::scopes::*;
use bva::{Bit, BitVector, Bv, Bvd, Bvf};

#[inline(always)]
fn one(b: Bit) -> bool {
    b == Bit::One
}

/// Capacity of a freshly constructed `Bvd` of `n` bits: whole 64-bit words.
#[inline(always)]
fn fresh_bvd(n: usize) -> usize {
    (n + 63) / 64 * 64
}

/// Capacity of a freshly constructed `Bv` of `n` bits: inline (128) when it fits.
#[inline(always)]
fn fresh_bv(n: usize) -> usize {
    if n <= 128 {
        128
    } else {
        fresh_bvd(n)
    }
}

/// Heap-mode `Bv` with four allocated words (scopes.rs stops at three).
#[inline(always)]
fn bvdyn4(len: usize) -> (Bv, RawV) {
    let (b, r) = bvd4(len);
    (Bv::Dynamic(b), r)
}

// ---- with_capacity / fresh vectors ----------------------------------------------------------

macro_rules! h_with_capacity {
    ($name:ident, $unw:literal, $T:ty, $c:literal) => {
        harness!($name, $unw, {
            let a = <$T>::with_capacity($c);
            let cap = a.capacity();
            let len = a.len();
            w!(cap >= $c, "capacity covers the request");
            let r = a.into_raw();
            assert!(len == 0 && r.len == 0, "C18: with_capacity: not empty");
            assert!(cap >= $c, "C18: with_capacity: capacity() < requested");
            assert!(r.cap == cap, "C18: capacity() differs from the allocated storage");
            assert!(r.v.is_zero(), "C18: with_capacity: storage not zero");
        });
    };
}

macro_rules! h_fresh {
    ($name:ident, $unw:literal, $T:ty, $fresh:ident, $n:literal) => {
        harness!($name, $unw, {
            let z = <$T>::zeros($n);
            let o = <$T>::ones($n);
            w!(z.len() == $n, "constructed");
            assert!(z.capacity() == $fresh($n), "C18: capacity of zeros(n) differs from the fresh-capacity formula");
            assert!(o.capacity() == $fresh($n), "C18: capacity of ones(n) differs from the fresh-capacity formula");
            let rz = z.into_raw();
            let ro = o.into_raw();
            assert!(rz.len == $n && rz.v.is_zero() && rz.len <= rz.cap, "C18: zeros(n) is not n zero bits within capacity");
            assert!(ro.len == $n && ro.v == Big::mask($n) && ro.len <= ro.cap, "C18: ones(n) is not n one bits within capacity");
        });
    };
}

// ---- reserve ----------------------------------------------------------------------------------

/// `$grow`: whether this concrete instance needs a reallocation / promotion.
macro_rules! h_reserve_g {
    ($name:ident, $unw:literal, $a:expr, $k:literal, $grow:literal) => {
        harness!($name, $unw, {
            let (mut a, ra) = $a;
            let n = ra.len;
            w!(n == 0 || ra.v.bit(n - 1), "empty or top bit set");
            w!(ra.v.is_zero(), "all zeros (or empty)");
            a.reserve($k);
            let cap = a.capacity();
            w!((cap > ra.cap) == $grow, "storage grew exactly when a reallocation / promotion was needed");
            let r = a.into_raw();
            assert!(r.len == n, "C18: reserve changed the length");
            assert!(r.v == ra.v, "C18: reserve changed the bits (or left a spare word non-zero)");
            assert!(cap >= n + $k, "C18: reserve: capacity < len + additional");
            assert!(cap == r.cap, "C18: capacity() differs from the allocated storage");
            assert!(r.len <= r.cap, "C18: len > capacity");
        });
    };
}

// ---- shrink_to_fit ----------------------------------------------------------------------------

macro_rules! h_shrink {
    ($name:ident, $unw:literal, $a:expr, $fresh:ident, $shrinks:literal) => {
        harness!($name, $unw, {
            let (mut a, ra) = $a;
            let n = ra.len;
            w!(n == 0 || ra.v.bit(n - 1), "empty or top bit set");
            w!(ra.v.is_zero(), "all zeros (or empty)");
            a.shrink_to_fit();
            let cap = a.capacity();
            w!((cap < ra.cap) == $shrinks, "storage shrank exactly when there was excess capacity");
            let r = a.into_raw();
            assert!(r.len == n, "C18: shrink_to_fit changed the length");
            assert!(r.v == ra.v, "C18: shrink_to_fit changed the bits");
            assert!(cap <= $fresh(n), "C18: shrink_to_fit left more capacity than a fresh vector of that length has");
            assert!(cap == r.cap, "C18: capacity() differs from the allocated storage");
            assert!(r.len <= r.cap, "C18: len > capacity");
        });
    };
}

// ---- interleavings with edits and arithmetic ----------------------------------------------------

/// reserve(k) then push: the vector must behave as if reserve had not happened.
macro_rules! h_reserve_push {
    ($name:ident, $unw:literal, $a:expr, $k:literal) => {
        harness!($name, $unw, {
            let (mut a, ra) = $a;
            let n = ra.len;
            let b = nd::bit();
            w!(one(b), "pushed bit is one");
            w!(n == 0 || ra.v.bit(n - 1), "empty or top bit set");
            a.reserve($k);
            a.push(b);
            let r = a.into_raw();
            let want = if one(b) { ra.v.or(Big::ONE.shl(n)) } else { ra.v };
            assert!(r.len == n + 1 && r.v == want, "C18: push after reserve: storage != v | b << len");
            assert!(r.len <= r.cap, "C18: len > capacity");
        });
    };
}

macro_rules! h_shrink_push {
    ($name:ident, $unw:literal, $a:expr) => {
        harness!($name, $unw, {
            let (mut a, ra) = $a;
            let n = ra.len;
            let b = nd::bit();
            w!(one(b), "pushed bit is one");
            w!(n == 0 || ra.v.bit(n - 1), "empty or top bit set");
            a.shrink_to_fit();
            a.push(b);
            let r = a.into_raw();
            let want = if one(b) { ra.v.or(Big::ONE.shl(n)) } else { ra.v };
            assert!(r.len == n + 1 && r.v == want, "C18: push after shrink_to_fit: storage != v | b << len");
            assert!(r.len <= r.cap, "C18: len > capacity");
        });
    };
}

/// reserve(k) then resize(m, bit).
macro_rules! h_reserve_resize {
    ($name:ident, $unw:literal, $a:expr, $k:literal, $m:literal) => {
        harness!($name, $unw, {
            let (mut a, ra) = $a;
            let n = ra.len;
            let b = nd::bit();
            w!(one(b), "fill bit is one");
            w!(n == 0 || ra.v.bit(n - 1), "empty or top bit set");
            a.reserve($k);
            a.resize($m, b);
            let r = a.into_raw();
            let want = if $m <= n {
                ra.v.trunc($m)
            } else if one(b) {
                ra.v.or(Big::mask($m).and(Big::mask(n).not()))
            } else {
                ra.v
            };
            assert!(r.len == $m && r.v == want, "C18: resize after reserve: storage != truncated / filled value");
            assert!(r.len <= r.cap, "C18: len > capacity");
        });
    };
}

/// reserve(k) then append(&x).
macro_rules! h_reserve_append {
    ($name:ident, $unw:literal, $a:expr, $k:literal, $x:expr) => {
        harness!($name, $unw, {
            let (mut a, ra) = $a;
            let (x, rx) = $x;
            let n = ra.len;
            w!(rx.len == 0 || rx.v.bit(rx.len - 1), "operand empty or top bit set");
            w!(n == 0 || ra.v.bit(n - 1), "empty or top bit set");
            a.reserve($k);
            a.append(&x);
            let r = a.into_raw();
            assert!(r.len == n + rx.len && r.v == ra.v.or(rx.v.shl(n)), "C18: append after reserve: storage != v | x << len");
            assert!(r.len <= r.cap, "C18: len > capacity");
        });
    };
}

/// reserve(k) then `a -= &y` / `a += &y` with a possibly longer operand: the spare words
/// created by reserve must neither be read nor written (the historical defect of this
/// property), result = (v -/+ y) mod 2^len on the whole storage.
macro_rules! h_reserve_arith {
    ($name:ident, $unw:literal, $a:expr, $k:literal, $y:expr, $op:tt, $model:ident) => {
        harness!($name, $unw, {
            let (mut a, ra) = $a;
            let (y, ry) = $y;
            let n = ra.len;
            w!(ry.len > n && !ry.v.fits(n), "operand longer than the subject with a set bit above len");
            w!(ry.len <= n, "operand not longer than the subject");
            w!(ra.v.trunc(n).cmp(ry.v.trunc(n)) == core::cmp::Ordering::Less, "subject < operand (borrow / no carry out of the top)");
            a.reserve($k);
            a $op &y;
            let r = a.into_raw();
            assert!(r.len == n, "C18: arithmetic after reserve changed the length");
            assert!(r.v == ra.v.$model(ry.v).trunc(n), "C18: arithmetic after reserve: storage != (v op y) mod 2^len (spare words dirtied?)");
            assert!(r.len <= r.cap, "C18: len > capacity");
        });
    };
}

/// The auto type: promote by reserve, then demote by shrink_to_fit (and the reverse order):
/// no observable bit may change and the capacity ends at the fresh value.
macro_rules! h_bv_round_trip {
    ($name:ident, $unw:literal, $a:expr, $k:literal) => {
        harness!($name, $unw, {
            let (mut a, ra) = $a;
            let n = ra.len;
            w!(n == 0 || ra.v.bit(n - 1), "empty or top bit set");
            a.reserve($k);
            let mid_fixed = is_fixed(&a);
            w!(!mid_fixed, "heap mode after reserve");
            assert!(a.len() == n && a.capacity() >= n + $k, "C18: reserve: length changed or capacity < len + additional");
            a.shrink_to_fit();
            let end_fixed = is_fixed(&a);
            w!(end_fixed == (n <= 128), "inline again after shrink_to_fit exactly when the length fits");
            let cap = a.capacity();
            let r = a.into_raw();
            assert!(r.len == n && r.v == ra.v, "C18: reserve + shrink_to_fit changed the length or the bits");
            assert!(cap <= fresh_bv(n) && cap == r.cap, "C18: reserve + shrink_to_fit left excess capacity");
            assert!(r.len <= r.cap, "C18: len > capacity");
        });
    };
}

// =============================================================================================
// with_capacity and the fresh-capacity formula
// =============================================================================================
h_with_capacity!(c18_q_withcap_bvd_c0, 4, Bvd, 0);
h_with_capacity!(c18_q_withcap_bvd_c1, 4, Bvd, 1);
h_with_capacity!(c18_q_withcap_bvd_c64, 4, Bvd, 64);
h_with_capacity!(c18_q_withcap_bvd_c65, 5, Bvd, 65);
h_with_capacity!(c18_q_withcap_bvd_c128, 5, Bvd, 128);
h_with_capacity!(c18_q_withcap_bvd_c129, 6, Bvd, 129);
h_with_capacity!(c18_q_withcap_bvd_c192, 6, Bvd, 192);
h_with_capacity!(c18_t_withcap_bvd_c193, 7, Bvd, 193);
h_with_capacity!(c18_t_withcap_bvd_c256, 7, Bvd, 256);
h_with_capacity!(c18_q_withcap_bv_c0, 4, Bv, 0);
h_with_capacity!(c18_q_withcap_bv_c1, 4, Bv, 1);
h_with_capacity!(c18_q_withcap_bv_c64, 4, Bv, 64);
h_with_capacity!(c18_q_withcap_bv_c128, 4, Bv, 128);
h_with_capacity!(c18_q_withcap_bv_c129, 6, Bv, 129);
h_with_capacity!(c18_q_withcap_bv_c192, 6, Bv, 192);
h_with_capacity!(c18_t_withcap_bv_c65, 4, Bv, 65);
h_with_capacity!(c18_t_withcap_bv_c256, 7, Bv, 256);

h_fresh!(c18_q_fresh_bvd_n0, 4, Bvd, fresh_bvd, 0);
h_fresh!(c18_q_fresh_bvd_n1, 4, Bvd, fresh_bvd, 1);
h_fresh!(c18_q_fresh_bvd_n64, 4, Bvd, fresh_bvd, 64);
h_fresh!(c18_q_fresh_bvd_n65, 5, Bvd, fresh_bvd, 65);
h_fresh!(c18_q_fresh_bvd_n128, 5, Bvd, fresh_bvd, 128);
h_fresh!(c18_q_fresh_bvd_n129, 6, Bvd, fresh_bvd, 129);
h_fresh!(c18_q_fresh_bvd_n192, 6, Bvd, fresh_bvd, 192);
h_fresh!(c18_t_fresh_bvd_n63, 4, Bvd, fresh_bvd, 63);
h_fresh!(c18_t_fresh_bvd_n127, 5, Bvd, fresh_bvd, 127);
h_fresh!(c18_t_fresh_bvd_n193, 7, Bvd, fresh_bvd, 193);
h_fresh!(c18_q_fresh_bv_n0, 5, Bv, fresh_bv, 0);
h_fresh!(c18_q_fresh_bv_n1, 5, Bv, fresh_bv, 1);
h_fresh!(c18_q_fresh_bv_n128, 5, Bv, fresh_bv, 128);
h_fresh!(c18_q_fresh_bv_n129, 6, Bv, fresh_bv, 129);
h_fresh!(c18_q_fresh_bv_n192, 6, Bv, fresh_bv, 192);
h_fresh!(c18_t_fresh_bv_n64, 5, Bv, fresh_bv, 64);
h_fresh!(c18_t_fresh_bv_n127, 5, Bv, fresh_bv, 127);
h_fresh!(c18_t_fresh_bv_n193, 7, Bv, fresh_bv, 193);

// ==== generated instantiations ================================================================
// reserve: (allocated words, len) x additional
h_reserve_g!(c18_q_reserve_bvd0n0_k0, 7, bvd0(0), 0, false);
h_reserve_g!(c18_q_reserve_bvd0n0_k1, 7, bvd0(0), 1, true);
h_reserve_g!(c18_q_reserve_bvd0n0_k65, 7, bvd0(0), 65, true);
h_reserve_g!(c18_q_reserve_bvd1n0_k64, 7, bvd1(0), 64, false);
h_reserve_g!(c18_q_reserve_bvd1n0_k65, 7, bvd1(0), 65, true);
h_reserve_g!(c18_q_reserve_bvd1n1_k63, 7, bvd1(1), 63, false);
h_reserve_g!(c18_q_reserve_bvd1n1_k64, 7, bvd1(1), 64, true);
h_reserve_g!(c18_q_reserve_bvd1n63_k1, 7, bvd1(63), 1, false);
h_reserve_g!(c18_q_reserve_bvd1n63_k2, 7, bvd1(63), 2, true);
h_reserve_g!(c18_q_reserve_bvd1n64_k0, 7, bvd1(64), 0, false);
h_reserve_g!(c18_q_reserve_bvd1n64_k1, 7, bvd1(64), 1, true);
h_reserve_g!(c18_q_reserve_bvd1n64_k64, 7, bvd1(64), 64, true);
h_reserve_g!(c18_q_reserve_bvd1n64_k65, 7, bvd1(64), 65, true);
h_reserve_g!(c18_q_reserve_bvd1n64_k192, 7, bvd1(64), 192, true);
h_reserve_g!(c18_q_reserve_bvd2n64_k64, 7, bvd2(64), 64, false);
h_reserve_g!(c18_q_reserve_bvd2n64_k65, 7, bvd2(64), 65, true);
h_reserve_g!(c18_q_reserve_bvd2n65_k63, 7, bvd2(65), 63, false);
h_reserve_g!(c18_q_reserve_bvd2n128_k1, 7, bvd2(128), 1, true);
h_reserve_g!(c18_q_reserve_bvd2n128_k128, 7, bvd2(128), 128, true);
h_reserve_g!(c18_q_reserve_bvd2n10_k0, 7, bvd2(10), 0, false);
h_reserve_g!(c18_q_reserve_bvd3n10_k182, 7, bvd3(10), 182, false);
h_reserve_g!(c18_q_reserve_bvd3n10_k183, 7, bvd3(10), 183, true);
h_reserve_g!(c18_q_reserve_bvd3n192_k0, 7, bvd3(192), 0, false);
h_reserve_g!(c18_q_reserve_bvd3n192_k1, 7, bvd3(192), 1, true);
h_reserve_g!(c18_q_reserve_bvd3n192_k64, 7, bvd3(192), 64, true);
h_reserve_g!(c18_t_reserve_bvd1n5_k59, 7, bvd1(5), 59, false);
h_reserve_g!(c18_t_reserve_bvd1n5_k60, 7, bvd1(5), 60, true);
h_reserve_g!(c18_t_reserve_bvd1n5_k123, 7, bvd1(5), 123, true);
h_reserve_g!(c18_t_reserve_bvd1n5_k124, 7, bvd1(5), 124, true);
h_reserve_g!(c18_t_reserve_bvd1n5_k251, 7, bvd1(5), 251, true);
h_reserve_g!(c18_t_reserve_bvd2n127_k1, 7, bvd2(127), 1, false);
h_reserve_g!(c18_t_reserve_bvd2n127_k2, 7, bvd2(127), 2, true);
h_reserve_g!(c18_t_reserve_bvd2n100_k92, 7, bvd2(100), 92, true);
h_reserve_g!(c18_t_reserve_bvd2n100_k93, 7, bvd2(100), 93, true);
h_reserve_g!(c18_t_reserve_bvd4n200_k56, 7, bvd4(200), 56, false);
h_reserve_g!(c18_t_reserve_bvd4n256_k0, 7, bvd4(256), 0, false);
// reserve on the auto type: inline (promotion exactly when len + additional > 128) and heap mode
h_reserve_g!(c18_q_reserve_bvfixn0_k0, 7, bvfix(0), 0, false);
h_reserve_g!(c18_q_reserve_bvfixn0_k128, 7, bvfix(0), 128, false);
h_reserve_g!(c18_q_reserve_bvfixn0_k129, 7, bvfix(0), 129, true);
h_reserve_g!(c18_q_reserve_bvfixn100_k28, 7, bvfix(100), 28, false);
h_reserve_g!(c18_q_reserve_bvfixn100_k29, 7, bvfix(100), 29, true);
h_reserve_g!(c18_q_reserve_bvfixn128_k0, 7, bvfix(128), 0, false);
h_reserve_g!(c18_q_reserve_bvfixn128_k1, 7, bvfix(128), 1, true);
h_reserve_g!(c18_q_reserve_bvfixn128_k64, 7, bvfix(128), 64, true);
h_reserve_g!(c18_q_reserve_bvfixn64_k192, 7, bvfix(64), 192, true);
h_reserve_g!(c18_t_reserve_bvfixn1_k127, 7, bvfix(1), 127, false);
h_reserve_g!(c18_t_reserve_bvfixn1_k128, 7, bvfix(1), 128, true);
h_reserve_g!(c18_t_reserve_bvfixn127_k1, 7, bvfix(127), 1, false);
h_reserve_g!(c18_t_reserve_bvfixn127_k2, 7, bvfix(127), 2, true);
h_reserve_g!(c18_t_reserve_bvfixn5_k251, 7, bvfix(5), 251, true);
h_reserve_g!(c18_q_reserve_bvdyn2n100_k28, 7, bvdyn2(100), 28, false);
h_reserve_g!(c18_q_reserve_bvdyn2n100_k29, 7, bvdyn2(100), 29, true);
h_reserve_g!(c18_q_reserve_bvdyn2n128_k64, 7, bvdyn2(128), 64, true);
h_reserve_g!(c18_q_reserve_bvdyn3n129_k0, 7, bvdyn3(129), 0, false);
h_reserve_g!(c18_q_reserve_bvdyn1n10_k200, 7, bvdyn1(10), 200, true);
h_reserve_g!(c18_t_reserve_bvdyn3n192_k1, 7, bvdyn3(192), 1, true);
h_reserve_g!(c18_t_reserve_bvdyn2n5_k123, 7, bvdyn2(5), 123, false);
h_reserve_g!(c18_t_reserve_bvdyn2n5_k124, 7, bvdyn2(5), 124, true);

// shrink_to_fit
h_shrink!(c18_q_shrink_bvd3n0, 7, bvd3(0), fresh_bvd, true);
h_shrink!(c18_q_shrink_bvd3n1, 7, bvd3(1), fresh_bvd, true);
h_shrink!(c18_q_shrink_bvd3n64, 7, bvd3(64), fresh_bvd, true);
h_shrink!(c18_q_shrink_bvd3n65, 7, bvd3(65), fresh_bvd, true);
h_shrink!(c18_q_shrink_bvd3n128, 7, bvd3(128), fresh_bvd, true);
h_shrink!(c18_q_shrink_bvd3n129, 7, bvd3(129), fresh_bvd, false);
h_shrink!(c18_q_shrink_bvd3n192, 7, bvd3(192), fresh_bvd, false);
h_shrink!(c18_q_shrink_bvd1n0, 7, bvd1(0), fresh_bvd, true);
h_shrink!(c18_q_shrink_bvd1n64, 7, bvd1(64), fresh_bvd, false);
h_shrink!(c18_q_shrink_bvd2n64, 7, bvd2(64), fresh_bvd, true);
h_shrink!(c18_q_shrink_bvd4n130, 7, bvd4(130), fresh_bvd, true);
h_shrink!(c18_q_shrink_bvd0n0, 7, bvd0(0), fresh_bvd, false);
h_shrink!(c18_t_shrink_bvd4n0, 7, bvd4(0), fresh_bvd, true);
h_shrink!(c18_t_shrink_bvd4n192, 7, bvd4(192), fresh_bvd, true);
h_shrink!(c18_t_shrink_bvd4n193, 7, bvd4(193), fresh_bvd, false);
h_shrink!(c18_t_shrink_bvd2n1, 7, bvd2(1), fresh_bvd, true);
h_shrink!(c18_t_shrink_bvd2n65, 7, bvd2(65), fresh_bvd, false);
h_shrink!(c18_t_shrink_bvd3n127, 7, bvd3(127), fresh_bvd, true);
h_shrink!(c18_q_shrink_bvdyn3n0, 7, bvdyn3(0), fresh_bv, true);
h_shrink!(c18_q_shrink_bvdyn3n1, 7, bvdyn3(1), fresh_bv, true);
h_shrink!(c18_q_shrink_bvdyn3n128, 7, bvdyn3(128), fresh_bv, true);
h_shrink!(c18_q_shrink_bvdyn3n129, 7, bvdyn3(129), fresh_bv, false);
h_shrink!(c18_q_shrink_bvdyn3n192, 7, bvdyn3(192), fresh_bv, false);
h_shrink!(c18_q_shrink_bvdyn2n100, 7, bvdyn2(100), fresh_bv, false);
h_shrink!(c18_q_shrink_bvdyn1n10, 7, bvdyn1(10), fresh_bv, false);
h_shrink!(c18_q_shrink_bvdyn4n130, 7, bvdyn4(130), fresh_bv, true);
h_shrink!(c18_q_shrink_bvdyn4n128, 7, bvdyn4(128), fresh_bv, true);
h_shrink!(c18_t_shrink_bvdyn4n193, 7, bvdyn4(193), fresh_bv, false);
h_shrink!(c18_t_shrink_bvdyn4n129, 7, bvdyn4(129), fresh_bv, true);
h_shrink!(c18_t_shrink_bvdyn2n128, 7, bvdyn2(128), fresh_bv, false);
h_shrink!(c18_t_shrink_bvdyn3n64, 7, bvdyn3(64), fresh_bv, true);
h_shrink!(c18_q_shrink_bvfixn0, 7, bvfix(0), fresh_bv, false);
h_shrink!(c18_q_shrink_bvfixn100, 7, bvfix(100), fresh_bv, false);
h_shrink!(c18_q_shrink_bvfixn128, 7, bvfix(128), fresh_bv, false);

// interleavings: reserve / shrink_to_fit followed by an edit or by arithmetic
h_reserve_push!(c18_q_reserve_push_bvd1n64_k1, 7, bvd1(64), 1);
h_reserve_push!(c18_q_reserve_push_bvd1n64_k100, 7, bvd1(64), 100);
h_reserve_push!(c18_q_reserve_push_bvd1n10_k200, 7, bvd1(10), 200);
h_reserve_push!(c18_q_reserve_push_bvd2n128_k0, 7, bvd2(128), 0);
h_reserve_push!(c18_q_reserve_push_bvd0n0_k64, 7, bvd0(0), 64);
h_reserve_push!(c18_q_reserve_push_bvfixn128_k1, 7, bvfix(128), 1);
h_reserve_push!(c18_q_reserve_push_bvfixn100_k100, 7, bvfix(100), 100);
h_reserve_push!(c18_q_reserve_push_bvfixn127_k1, 7, bvfix(127), 1);
h_reserve_push!(c18_t_reserve_push_bvd3n192_k1, 7, bvd3(192), 1);
h_reserve_push!(c18_t_reserve_push_bvd2n127_k70, 7, bvd2(127), 70);
h_reserve_push!(c18_t_reserve_push_bvfixn0_k129, 7, bvfix(0), 129);
h_shrink_push!(c18_q_shrink_push_bvd3n64, 7, bvd3(64));
h_shrink_push!(c18_q_shrink_push_bvd3n10, 7, bvd3(10));
h_shrink_push!(c18_q_shrink_push_bvd3n128, 7, bvd3(128));
h_shrink_push!(c18_q_shrink_push_bvd2n0, 7, bvd2(0));
h_shrink_push!(c18_q_shrink_push_bvd4n192, 7, bvd4(192));
h_shrink_push!(c18_q_shrink_push_bvdyn3n100, 7, bvdyn3(100));
h_shrink_push!(c18_q_shrink_push_bvdyn3n128, 7, bvdyn3(128));
h_shrink_push!(c18_t_shrink_push_bvd4n64, 7, bvd4(64));
h_shrink_push!(c18_t_shrink_push_bvdyn4n127, 7, bvdyn4(127));
h_reserve_resize!(c18_q_reserve_resize_bvd1n60_k100_m130, 8, bvd1(60), 100, 130);
h_reserve_resize!(c18_q_reserve_resize_bvd1n64_k64_m65, 8, bvd1(64), 64, 65);
h_reserve_resize!(c18_q_reserve_resize_bvd1n64_k190_m10, 8, bvd1(64), 190, 10);
h_reserve_resize!(c18_q_reserve_resize_bvd2n100_k1_m192, 8, bvd2(100), 1, 192);
h_reserve_resize!(c18_q_reserve_resize_bvfixn100_k100_m130, 8, bvfix(100), 100, 130);
h_reserve_resize!(c18_q_reserve_resize_bvfixn128_k1_m100, 8, bvfix(128), 1, 100);
h_reserve_resize!(c18_t_reserve_resize_bvd1n0_k1_m192, 8, bvd1(0), 1, 192);
h_reserve_resize!(c18_t_reserve_resize_bvd3n192_k64_m0, 8, bvd3(192), 64, 0);
h_reserve_resize!(c18_t_reserve_resize_bvfixn10_k200_m129, 8, bvfix(10), 200, 129);
h_reserve_append!(c18_q_reserve_append_bvd1n60_k100_f8x2n10, 12, bvd1(60), 100, f8x2(10));
h_reserve_append!(c18_q_reserve_append_bvd1n64_k1_f64x2n128, 12, bvd1(64), 1, f64x2(128));
h_reserve_append!(c18_q_reserve_append_bvd2n100_k150_bvd1n64, 12, bvd2(100), 150, bvd1(64));
h_reserve_append!(c18_q_reserve_append_bvfixn100_k100_f8x2n16, 12, bvfix(100), 100, f8x2(16));
h_reserve_append!(c18_t_reserve_append_bvd1n1_k64_bvfixn127, 12, bvd1(1), 64, bvfix(127));
h_reserve_append!(c18_t_reserve_append_bvfixn128_k64_f64x1n64, 12, bvfix(128), 64, f64x1(64));
h_reserve_arith!(c18_q_reserve_sub_bvd1n40_k200_f64x3, 6, bvd1(40), 200, f64x3(anylen(192)), -=, sub);
h_reserve_arith!(c18_q_reserve_sub_bvd1n64_k65_f64x3, 6, bvd1(64), 65, f64x3(anylen(192)), -=, sub);
h_reserve_arith!(c18_q_reserve_add_bvd1n40_k200_f64x3, 6, bvd1(40), 200, f64x3(anylen(192)), +=, add);
h_reserve_arith!(c18_q_reserve_sub_bvd1n10_k60_f8x3, 10, bvd1(10), 60, f8x3(anylen(24)), -=, sub);
h_reserve_arith!(c18_q_reserve_sub_bvd1n40_k200_bvd3, 6, bvd1(40), 200, bvd3(anylen(192)), -=, sub);
h_reserve_arith!(c18_q_reserve_sub_bvdyn3n40_k100_f64x3, 6, bvdyn3(40), 100, f64x3(anylen(192)), -=, sub);
h_reserve_arith!(c18_q_reserve_sub_bvfixn100_k100_f64x3, 6, bvfix(100), 100, f64x3(anylen(192)), -=, sub);
h_reserve_arith!(c18_t_reserve_add_bvd2n128_k1_f64x3, 6, bvd2(128), 1, f64x3(anylen(192)), +=, add);
h_reserve_arith!(c18_t_reserve_sub_bvd1n1_k64_f64x2, 6, bvd1(1), 64, f64x2(anylen(128)), -=, sub);
h_reserve_arith!(c18_t_reserve_add_bvd1n40_k200_bvdyn3, 6, bvd1(40), 200, bvdyn3(anylen(192)), +=, add);
h_reserve_arith!(c18_t_reserve_sub_bvd2n20_k190_f16x2, 8, bvd2(20), 190, f16x2(anylen(32)), -=, sub);

// the auto type: inline -> heap (reserve) -> inline (shrink_to_fit), and heap vectors that stay heap
h_bv_round_trip!(c18_q_roundtrip_bvfixn0_k129, 7, bvfix(0), 129);
h_bv_round_trip!(c18_q_roundtrip_bvfixn100_k29, 7, bvfix(100), 29);
h_bv_round_trip!(c18_q_roundtrip_bvfixn128_k1, 7, bvfix(128), 1);
h_bv_round_trip!(c18_q_roundtrip_bvfixn128_k128, 7, bvfix(128), 128);
h_bv_round_trip!(c18_q_roundtrip_bvdyn3n129_k0, 7, bvdyn3(129), 0);
h_bv_round_trip!(c18_q_roundtrip_bvdyn3n130_k62, 7, bvdyn3(130), 62);
h_bv_round_trip!(c18_t_roundtrip_bvfixn64_k65, 7, bvfix(64), 65);
h_bv_round_trip!(c18_t_roundtrip_bvfixn1_k200, 7, bvfix(1), 200);
h_bv_round_trip!(c18_t_roundtrip_bvdyn3n100_k50, 7, bvdyn3(100), 50);

// ---- "len <= capacity at every point" for the fixed type: growth beyond the capacity panics ----
// (C19 covers this family in depth and in both build models; these instances make C18's own
// check sensitive to a weakened capacity assertion)
macro_rules! h_fixed_grow_panics {
    ($name:ident, $unw:literal, $a:expr) => {
        harness_mp!($name, $unw, {
            let (mut a, ra) = $a;
            let k = nd::usize();
            nd::assume(k > ra.cap && k <= ra.cap + 70);
            w!(ra.len == ra.cap && k == ra.cap + 1, "full vector grown by one bit");
            a.resize(k, nd::bit());
            never!("NEVER:a fixed vector grew beyond its capacity without panicking");
        });
    };
}
h_fixed_grow_panics!(c18_q_fixed_grow_f8x1_pb, 4, f8x1(anylen(8)));
h_fixed_grow_panics!(c18_q_fixed_grow_f16x1_pb, 4, f16x1(anylen(16)));
h_fixed_grow_panics!(c18_q_fixed_grow_f64x2_pb, 5, f64x2(anylen(128)));
