//! C18 harnesses (not written yet).
