//! C06 — rotations permute bits cyclically and are mutually inverse.
//!
//! Oracle on the model value `(n, v)`, `0 <= k <= n`:
//!   rotl(k): n = 0 -> unchanged, else ((v << k) | (v >> (n-k))) mod 2^n
//!   rotr(k): n = 0 -> unchanged, else ((v >> k) | (v << (n-k))) mod 2^n
//! compared with the *raw storage* of the result (the rotation builds fresh storage, so the
//! padding bits and spare words of the new storage are part of what is compared), length
//! unchanged. The statement's own wording ("the bit at index i moves to (i +/- k) mod n") is
//! asserted in addition for a symbolic index i, and the consequences (rotr after rotl is the
//! identity, rotl(k) = rotr(n-k), popcount unchanged) are asserted directly on the code's
//! results in the `cons` harnesses. `k > n` is outside the property (precondition).
use crate::big::Big;
use crate::nd;
use crate::scopes::*;
use bva::{Bit, BitVector, Bv, Bvd, Bvf};

#[inline(always)]
fn rotl_model(v: Big, n: usize, k: usize) -> Big {
    if n == 0 {
        v
    } else {
        v.shl(k).or(v.shr(n - k)).trunc(n)
    }
}

#[inline(always)]
fn rotr_model(v: Big, n: usize, k: usize) -> Big {
    if n == 0 {
        v
    } else {
        v.shr(k).or(v.shl(n - k)).trunc(n)
    }
}

/// (i + k) mod n for i < n, k <= n, without a division.
#[inline(always)]
fn addmod(i: usize, k: usize, n: usize) -> usize {
    let j = i + k;
    if j >= n {
        j - n
    } else {
        j
    }
}

#[inline(always)]
fn popcount(v: Big) -> u32 {
    v.lo.count_ones() + v.hi.count_ones()
}

/// Witnesses. `multi`: scope with >= 2 words of `$B` bits, every length; `hi`: the same
/// scope restricted to lengths above one word (no spare word possible); `single`: one-word
/// scope; `lo`: multi-word scope restricted to lengths of at most one word (spare word).
macro_rules! rot_wit {
    (hi, $B:literal, $n:ident, $k:ident, $v:ident, $cap:expr) => {
        w!($n > 0 && $k == $n && !$v.is_zero(), "k = n on a non-zero vector");
        w!($k > 0 && $k < $n && ($n - $k == $B || $k == $B) && $v.bit($B - 1) && $v.bit($B) && !$v.bit($B + 1),
           "run of ones straddling a word boundary exactly at the rotation split");
        w!($n > $B && $n % $B == 0 && $k % $B == 1 && $v.bit($n - 1) && $v.bit(0),
           "len a multiple of the word size, k one past a word multiple, both end bits set");
        w!($n > $B + 1 && $n % $B != 0 && $k == $n - 1 && $v.bit($n - 1), "partial top word, k = n - 1, top bit set");
    };
    (multi, $B:literal, $n:ident, $k:ident, $v:ident, $cap:expr) => {
        w!($n == 0, "empty vector");
        rot_wit!(hi, $B, $n, $k, $v, $cap);
        w!($cap >= $n + $B && $k > 0 && $k < $n && $v.bit($n - 1), "proper rotation with a spare storage word, top bit set");
    };
    (single, $B:literal, $n:ident, $k:ident, $v:ident, $cap:expr) => {
        w!($n == 0, "empty vector");
        w!($n > 0 && $k == $n && !$v.is_zero(), "k = n on a non-zero vector");
        w!($n == $B && $k == 1 && $v.bit($n - 1) && $v.bit(0), "len exactly the word size, both end bits set");
        w!($n > 2 && $n < $B && $k == $n - 1 && $v.bit($n - 1), "partial word, k = n - 1, top bit set");
    };
    (lo, $B:literal, $n:ident, $k:ident, $v:ident, $cap:expr) => {
        rot_wit!(single, $B, $n, $k, $v, $cap);
        w!($cap >= $n + $B && $k > 0 && $k < $n && $v.bit($n - 1), "proper rotation with a spare storage word, top bit set");
    };
}

/// Symbolic length in `lo..=hi`.
#[inline(always)]
fn lenin(lo: usize, hi: usize) -> usize {
    let l = nd::upto(hi);
    nd::assume(l >= lo);
    l
}

/// `Bvf`: rotl and rotr in one harness (symbolic choice).
macro_rules! h_rot_f {
    ($name:ident, $unw:literal, $a:expr, $kind:ident, $B:literal) => {
        harness!($name, $unw, {
            let (mut a, ra) = $a;
            let n = ra.len;
            let v = ra.v;
            let k = nd::upto(n);
            rot_wit!($kind, $B, n, k, v, ra.cap);
            let left = nd::bool();
            let want = if left {
                a.rotl(k);
                rotl_model(v, n, k)
            } else {
                a.rotr(k);
                rotr_model(v, n, k)
            };
            let r = a.into_raw();
            assert!(r.len == n, "C06: rotation changed the length");
            assert!(r.v == want, "C06: storage after rotation != cyclic rotation of the value");
            // the statement, literally: bit i moves to (i + k) mod n resp. (i - k) mod n
            if n > 0 {
                let i = nd::upto(n - 1);
                let j = if left { addmod(i, k, n) } else { addmod(i, n - k, n) };
                assert!(r.v.bit(j) == v.bit(i), "C06: bit i did not move to (i +/- k) mod n");
            }
        });
    };
}

/// Consequences, asserted on the code's results only (no model), cheap scopes; three
/// harnesses so that each contains two rotations only.
macro_rules! cons_prelude {
    ($a:ident, $ra:ident, $n:ident, $k:ident, $gen:expr) => {
        let ($a, $ra) = $gen;
        let $n = $ra.len;
        let $k = nd::upto($n);
        w!($n == 0, "empty vector");
        w!($n > 0 && $k == $n && !$ra.v.is_zero(), "k = n on a non-zero vector");
        w!($k > 0 && $k < $n && !$ra.v.is_zero() && !$ra.v.not().trunc($n).is_zero(), "proper rotation of a non-uniform vector");
    };
}
macro_rules! h_rot_cons {
    ($id:ident, $eq:ident, $pop:ident, $unw:literal, $gen:expr) => {
        h_rot_cons!($id, $eq, $unw, $gen);
        harness!($pop, $unw, {
            cons_prelude!(a, ra, n, k, $gen);
            let mut x = a.clone();
            if nd::bool() {
                x.rotl(k);
            } else {
                x.rotr(k);
            }
            assert!(popcount(x.into_raw().v) == popcount(ra.v), "C06: rotation changed the number of set bits");
        });
    };
    ($id:ident, $eq:ident, $unw:literal, $gen:expr) => {
        harness!($id, $unw, {
            cons_prelude!(a, ra, n, k, $gen);
            let mut x = a.clone();
            x.rotl(k);
            x.rotr(k);
            assert!(x.into_raw() == ra, "C06: rotl(k) followed by rotr(k) is not the identity");
        });
        harness!($eq, $unw, {
            cons_prelude!(a, ra, n, k, $gen);
            let mut l = a.clone();
            l.rotl(k);
            let mut r = a.clone();
            r.rotr(n - k);
            assert!(l.into_raw() == r.into_raw(), "C06: rotl(k) != rotr(n-k)");
        });
    };
}

/// One rotation per harness: heap-backed subjects (the rotation allocates fresh storage of
/// the subject's concrete number of words) and `Bvf` with wide words (every loop iteration
/// contains a `% len` on a symbolic 64-bit length, the dominating cost).
macro_rules! h_rot_d {
    ($name:ident, $unw:literal, $a:expr, $op:ident, $model:ident, $kind:ident, $B:literal) => {
        harness!($name, $unw, {
            let (mut a, ra) = $a;
            let n = ra.len;
            let v = ra.v;
            let k = nd::upto(n);
            rot_wit!($kind, $B, n, k, v, ra.cap);
            a.$op(k);
            let r = a.into_raw();
            assert!(r.len == n, "C06: rotation changed the length");
            assert!(r.v == $model(v, n, k), "C06: storage after rotation != cyclic rotation of the value");
            assert!(r.len <= r.cap, "C06: len > capacity");
        });
    };
}

// ---- Bvf ---------------------------------------------------------------------------------
h_rot_f!(c06_q_f8x1, 4, f8x1(anylen(8)), single, 8);
h_rot_f!(c06_q_f8x2, 6, f8x2(anylen(16)), multi, 8);
h_rot_f!(c06_q_f8x3, 8, f8x3(anylen(24)), multi, 8);
h_rot_f!(c06_q_f16x2, 6, f16x2(anylen(32)), multi, 16);
h_rot_d!(c06_q_rotl_f64x1, 4, f64x1(anylen(64)), rotl, rotl_model, single, 64);
h_rot_d!(c06_q_rotr_f64x1, 4, f64x1(anylen(64)), rotr, rotr_model, single, 64);
h_rot_d!(c06_q_rotl_f64x2_lo, 4, f64x2(anylen(64)), rotl, rotl_model, lo, 64);
h_rot_d!(c06_q_rotr_f64x2_lo, 4, f64x2(anylen(64)), rotr, rotr_model, lo, 64);
h_rot_d!(c06_q_rotl_f64x2_hi, 6, f64x2(lenin(65, 128)), rotl, rotl_model, hi, 64);
h_rot_d!(c06_q_rotr_f64x2_hi, 6, f64x2(lenin(65, 128)), rotr, rotr_model, hi, 64);
h_rot_f!(c06_t_f8x4, 10, f8x4(anylen(32)), multi, 8);
h_rot_f!(c06_t_f16x1, 4, f16x1(anylen(16)), single, 16);
h_rot_f!(c06_t_f32x2, 6, f32x2(anylen(64)), multi, 32);
h_rot_f!(c06_t_f64x2, 6, f64x2(anylen(128)), multi, 64);
h_rot_d!(c06_t_rotl_fuszx2, 6, fuszx2(anylen(128)), rotl, rotl_model, multi, 64);
h_rot_d!(c06_t_rotr_fuszx2, 6, fuszx2(anylen(128)), rotr, rotr_model, multi, 64);
h_rot_d!(c06_t_rotl_f64x3, 8, f64x3(anylen(192)), rotl, rotl_model, multi, 64);
h_rot_d!(c06_t_rotr_f64x3, 8, f64x3(anylen(192)), rotr, rotr_model, multi, 64);
h_rot_d!(c06_t_rotl_f128x2, 6, f128x2(anylen(256)), rotl, rotl_model, multi, 128);
h_rot_d!(c06_t_rotr_f128x2, 6, f128x2(anylen(256)), rotr, rotr_model, multi, 128);

h_rot_cons!(c06_q_cons_inv_f8x2, c06_q_cons_eq_f8x2, c06_q_cons_pop_f8x2, 6, f8x2(anylen(16)));
h_rot_cons!(c06_t_cons_inv_f8x3, c06_t_cons_eq_f8x3, c06_t_cons_pop_f8x3, 8, f8x3(anylen(24)));
// (popcount equality across a symbolic rotation of 32 bits does not finish in 25 min: not included)
h_rot_cons!(c06_t_cons_inv_f16x2, c06_t_cons_eq_f16x2, 6, f16x2(anylen(32)));

// ---- Bvd: W allocated words, every len 0..=64 W (spare words whenever len <= 64 (W-1)) ------
h_rot_d!(c06_q_rotl_bvd1, 4, bvd1(anylen(64)), rotl, rotl_model, single, 64);
h_rot_d!(c06_q_rotr_bvd1, 4, bvd1(anylen(64)), rotr, rotr_model, single, 64);
h_rot_d!(c06_q_rotl_bvd2_lo, 4, bvd2(anylen(64)), rotl, rotl_model, lo, 64);
h_rot_d!(c06_q_rotr_bvd2_lo, 4, bvd2(anylen(64)), rotr, rotr_model, lo, 64);
h_rot_d!(c06_q_rotl_bvd2_hi, 6, bvd2(lenin(65, 128)), rotl, rotl_model, hi, 64);
h_rot_d!(c06_q_rotr_bvd2_hi, 6, bvd2(lenin(65, 128)), rotr, rotr_model, hi, 64);
h_rot_d!(c06_t_rotl_bvd3, 8, bvd3(anylen(192)), rotl, rotl_model, multi, 64);
h_rot_d!(c06_t_rotr_bvd3, 8, bvd3(anylen(192)), rotr, rotr_model, multi, 64);

// ---- Bv, inline and heap mode ----------------------------------------------------------------
h_rot_d!(c06_q_rotl_bvfix, 6, bvfix(anylen(128)), rotl, rotl_model, multi, 64);
h_rot_d!(c06_t_rotr_bvfix, 6, bvfix(anylen(128)), rotr, rotr_model, multi, 64);
h_rot_d!(c06_t_rotl_bvdyn2, 6, bvdyn2(anylen(128)), rotl, rotl_model, multi, 64);
h_rot_d!(c06_q_rotr_bvdyn2, 6, bvdyn2(anylen(128)), rotr, rotr_model, multi, 64);
h_rot_d!(c06_t_rotl_bvdyn1, 4, bvdyn1(anylen(64)), rotl, rotl_model, single, 64);
h_rot_d!(c06_t_rotr_bvdyn1, 4, bvdyn1(anylen(64)), rotr, rotr_model, single, 64);
h_rot_d!(c06_t_rotl_bvdyn3, 8, bvdyn3(anylen(192)), rotl, rotl_model, multi, 64);
h_rot_d!(c06_t_rotr_bvdyn3, 8, bvdyn3(anylen(192)), rotr, rotr_model, multi, 64);

/// The empty `Bvd` without any storage word.
harness!(c06_q_bvd0, 2, {
    let (mut a, ra) = bvd0(0);
    w!(ra.cap == 0 && ra.len == 0, "no storage at all");
    if nd::bool() {
        a.rotl(0);
    } else {
        a.rotr(0);
    }
    assert!(a.into_raw() == ra, "C06: rotating the empty vector changed it");
});

// ---- concrete (length, amount) pairs: whole-word rotations of heap vectors with spare words -----
// Cheap (everything but the contents is concrete) and aimed at word-granular fast paths, which a
// symbolic-amount harness can only reach through an expensive case split.
macro_rules! h_rot_conc {
    ($name:ident, $unw:literal, $a:expr, $op:ident, $model:ident, $k:literal) => {
        harness!($name, $unw, {
            let (mut a, ra) = $a;
            let n = ra.len;
            let v = ra.v;
            w!(!v.is_zero() && v != crate::big::Big::mask(n), "neither all zeros nor all ones");
            a.$op($k);
            let r = a.into_raw();
            assert!(r.len == n, "C06: rotation changed the length");
            assert!(r.v == $model(v, n, $k), "C06: storage after rotation != cyclic rotation of the value");
            assert!(r.len <= r.cap, "C06: len > capacity");
        });
    };
}
h_rot_conc!(c06_q_rotl_bvd3_l128_k64, 8, bvd3(128), rotl, rotl_model, 64);
h_rot_conc!(c06_q_rotr_bvd3_l128_k64, 8, bvd3(128), rotr, rotr_model, 64);
h_rot_conc!(c06_q_rotl_bvd2_l64_k64, 6, bvd2(64), rotl, rotl_model, 64);
h_rot_conc!(c06_q_rotr_bvd3_l128_k128, 8, bvd3(128), rotr, rotr_model, 128);
h_rot_conc!(c06_q_rotl_bvd4_l192_k128, 10, bvd4(192), rotl, rotl_model, 128);
h_rot_conc!(c06_q_rotr_bvdyn3_l128_k64, 8, bvdyn3(128), rotr, rotr_model, 64);
h_rot_conc!(c06_q_rotl_bvd3_l128_k0, 8, bvd3(128), rotl, rotl_model, 0);
h_rot_conc!(c06_q_rotl_bvd3_l100_k64, 8, bvd3(100), rotl, rotl_model, 64);
h_rot_conc!(c06_q_rotr_f64x3_l128_k64, 8, f64x3(128), rotr, rotr_model, 64);
