//! C06 harnesses (not written yet).
