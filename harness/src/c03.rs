//! C03 harnesses (not written yet).
