//! C03 — length and bits alone determine a vector: no hidden state after any history.
//!
//! Decided by induction over histories (DESIGN.md §3.3):
//!  (I1) every constructor returns a state satisfying the representation invariant `Inv`
//!       (len <= capacity, every storage bit at index >= len zero, spare words included);
//!  (I2) every mutating operation, from an *arbitrary* `Inv` state with arbitrary arguments,
//!       ends in an `Inv` state (one harness = one inductive step covering histories of any
//!       length);
//!  (I3) observers do not depend on what `Inv` leaves open: spare capacity of a `Bvd` and the
//!       storage mode of a `Bv`. For `Bvf`, `Inv` + equal (len, bits) means identical structs.
//! The functional harnesses of C01, C04..C08, C11..C13 additionally pin the *value* of every
//! post-state as a function of (len, bits) only, from the same arbitrary `Inv` pre-states.
use crate::big::{m64, Big};
use crate::nd;
use crate::scopes::*;
use bva::{Bit, BitVector, Bv, Bvd, Bvf, Endianness};
use std::hash::{Hash, Hasher};

// =========================================================================================
// (I2) one inductive step, Bvf: any editing operation with any argument
// =========================================================================================

macro_rules! h_step_edit_bvf {
    ($name:ident, $unw:literal, $group:literal, $a:expr, $b:expr) => {
        harness!($name, $unw, {
            let (mut a, ra) = $a;
            let (b, rb) = $b;
            let cap = ra.cap;
            let n = ra.len;
            let k = nd::usize();
            let bit = nd::bit();
            let op = nd::upto(3);
            w!(n % 8 != 0 && k != n, "subject has a partial top word");
            w!($group != 0 || (op == 3 && k > n && n % 8 != 0), "group 0: resize grows from a partial word");
            w!($group != 0 || (op == 3 && k < n), "group 0: resize shrinks");
            w!($group != 1 || (op == 3 && n > 0), "group 1: shr_in on a non-empty vector");
            w!($group != 2 || (op == 0 && rb.len > 0 && n % 8 != 0), "group 2: append at an unaligned position");
            w!($group != 2 || (op == 2 && k > 0 && k < n && rb.len > 0), "group 2: insert in the middle");
            if $group == 0 {
                // single-bit edits and shrinking/growing
                if op == 0 {
                    nd::assume(k < n);
                    a.set(k, bit);
                } else if op == 1 {
                    nd::assume(n < cap);
                    a.push(bit);
                } else if op == 2 {
                    let _ = a.pop();
                } else {
                    nd::assume(k <= cap);
                    a.resize(k, bit);
                }
            } else if $group == 1 {
                if op == 0 {
                    a.truncate(k);
                } else if op == 1 {
                    nd::assume(k <= cap);
                    a.sign_extend(k);
                } else if op == 2 {
                    let _ = a.shl_in(bit);
                } else {
                    let _ = a.shr_in(bit);
                }
            } else {
                // splicing
                if op == 0 {
                    nd::assume(n + rb.len <= cap);
                    a.append(&b);
                } else if op == 1 {
                    nd::assume(n + rb.len <= cap);
                    a.prepend(&b);
                } else if op == 2 {
                    nd::assume(k <= n && n + rb.len <= cap);
                    a.insert(k, &b);
                } else {
                    nd::assume(k <= n);
                    let hi = a.split_off(k);
                    let rh = hi.into_raw();
                    assert!(rh.inv(), "C03: split_off result has storage bits at index >= len");
                }
            }
            let r = a.into_raw();
            assert!(r.len <= r.cap, "C03: len > capacity after an edit");
            assert!(r.v.fits(r.len), "C03: storage bits at index >= len after an edit");
        });
    };
}

macro_rules! h_step_shift_bvf {
    ($name:ident, $unw:literal, $a:expr) => {
        harness!($name, $unw, {
            let (mut a, ra) = $a;
            let n = ra.len;
            let k = nd::usize();
            let op = nd::upto(4);
            w!(op < 2 && k > 0 && k < n && n % 8 != 0, "rotation inside a partial top word");
            w!(op == 2 && k > 0 && k < n, "left shift by less than len");
            if op == 0 {
                nd::assume(k <= n);
                a.rotl(k);
            } else if op == 1 {
                nd::assume(k <= n);
                a.rotr(k);
            } else if op == 2 {
                a <<= k;
            } else if op == 3 {
                a >>= k;
            } else {
                a = !a;
            }
            let r = a.into_raw();
            assert!(r.len == n, "C03: length changed by a shift/rotation/not");
            assert!(r.v.fits(r.len), "C03: storage bits at index >= len after a shift/rotation/not");
        });
    };
}

macro_rules! h_step_arith_bvf {
    ($name:ident, $unw:literal, $a:expr, $b:expr) => {
        harness!($name, $unw, {
            let (mut a, ra) = $a;
            let (b, rb) = $b;
            let n = ra.len;
            let op = nd::upto(4);
            w!(rb.len > n && !rb.v.fits(n), "rhs longer than lhs with set bits beyond len(lhs)");
            w!(op == 4 && n > 0 && ra.v.is_zero() && !rb.v.trunc(n).is_zero(), "0 - b borrows through every word");
            if op == 0 {
                a &= &b;
            } else if op == 1 {
                a |= &b;
            } else if op == 2 {
                a ^= &b;
            } else if op == 3 {
                a += &b;
            } else {
                a -= &b;
            }
            let r = a.into_raw();
            assert!(r.len == n, "C03: length changed by an arithmetic/logic operator");
            assert!(r.v.fits(r.len), "C03: storage bits at index >= len after an arithmetic/logic operator");
        });
    };
}

macro_rules! h_step_muldiv_bvf {
    ($name:ident, $unw:literal, $a:expr, $b:expr) => {
        harness!($name, $unw, {
            let (mut a, ra) = $a;
            let (b, rb) = $b;
            let n = ra.len;
            let op = nd::upto(2);
            nd::assume(op == 0 || !rb.v.is_zero());
            w!(op == 1 && rb.len > n, "divisor longer than the dividend");
            w!(op == 0 && n > 0 && n < 8, "product in a partial word");
            if op == 0 {
                a *= &b;
            } else if op == 1 {
                a /= &b;
            } else {
                a %= &b;
            }
            let r = a.into_raw();
            assert!(r.len == n, "C03: length changed by * / %");
            assert!(r.v.fits(r.len), "C03: storage bits at index >= len after * / %");
        });
    };
}

h_step_edit_bvf!(c03_q_step_edit0_f8x2, 5, 0, f8x2(anylen(16)), f8x1(anylen(8)));
h_step_edit_bvf!(c03_q_step_edit1_f8x2, 5, 1, f8x2(anylen(16)), f8x1(anylen(8)));
h_step_edit_bvf!(c03_q_step_edit2_f8x2_f8x3, 6, 2, f8x2(anylen(16)), f8x3(anylen(24)));
h_step_edit_bvf!(c03_q_step_edit0_f8x3, 6, 0, f8x3(anylen(24)), f8x1(anylen(8)));
h_step_edit_bvf!(c03_q_step_edit1_f8x3, 6, 1, f8x3(anylen(24)), f8x1(anylen(8)));
h_step_edit_bvf!(c03_q_step_edit2_f8x3_f16x1, 6, 2, f8x3(anylen(24)), f16x1(anylen(16)));
h_step_edit_bvf!(c03_q_step_edit0_f64x2, 5, 0, f64x2(anylen(128)), f8x1(anylen(8)));
h_step_edit_bvf!(c03_q_step_edit1_f64x2, 5, 1, f64x2(anylen(128)), f8x1(anylen(8)));
h_step_edit_bvf!(c03_t_step_edit2_f8x3_bvd1, 11, 2, f8x3(anylen(24)), bvd1(anylen(64)));
h_step_edit_bvf!(c03_t_step_edit2_f16x2_f8x3, 7, 2, f16x2(anylen(32)), f8x3(anylen(24)));
h_step_edit_bvf!(c03_t_step_edit0_f16x2, 5, 0, f16x2(anylen(32)), f8x1(anylen(8)));
h_step_edit_bvf!(c03_t_step_edit1_f16x2, 5, 1, f16x2(anylen(32)), f8x1(anylen(8)));
h_step_shift_bvf!(c03_q_step_shift_f8x2, 6, f8x2(anylen(16)));
h_step_shift_bvf!(c03_q_step_shift_f8x3, 8, f8x3(anylen(24)));
h_step_shift_bvf!(c03_q_step_shift_f16x2, 6, f16x2(anylen(32)));
h_step_shift_bvf!(c03_q_step_shift_f64x2, 6, f64x2(anylen(128)));
h_step_arith_bvf!(c03_q_step_arith_f8x2_f8x3, 4, f8x2(anylen(16)), f8x3(anylen(24)));
h_step_arith_bvf!(c03_q_step_arith_f8x2_u128, 4, f8x2(anylen(16)), iu128());
h_step_arith_bvf!(c03_q_step_arith_f16x2_f8x3, 4, f16x2(anylen(32)), f8x3(anylen(24)));
h_step_arith_bvf!(c03_q_step_arith_f64x2_f64x3, 4, f64x2(anylen(128)), f64x3(anylen(192)));
h_step_arith_bvf!(c03_q_step_arith_f64x2_bvd3, 4, f64x2(anylen(128)), bvd3(anylen(192)));
h_step_muldiv_bvf!(c03_t_step_muldiv_f8x1_f8x2, 6, f8x1(anylen(4)), f8x2(anylen(16)));
h_step_muldiv_bvf!(c03_t_step_muldiv_f8x1_f8x2_full, 10, f8x1(anylen(8)), f8x2(anylen(16)));
h_step_muldiv_bvf!(c03_t_step_muldiv_f8x1_u64, 10, f8x1(anylen(8)), iu64());

// =========================================================================================
// (I2) one inductive step, heap-backed subjects: one operation per harness
// =========================================================================================

/// `$body` mutates `a` (may use `b`, `rb`, `k`, `bit`, `n`); post-state must satisfy Inv.
macro_rules! h_step_heap {
    ($name:ident, $unw:literal, $a:expr, $b:expr, |$av:ident, $bv:ident, $rb:ident, $k:ident, $bit:ident, $n:ident| $body:block) => {
        harness!($name, $unw, {
            let (mut $av, ra) = $a;
            let ($bv, $rb) = $b;
            let $n = ra.len;
            let $k = nd::usize();
            let $bit = nd::bit();
            $body;
            let r = $av.into_raw();
            w!(r.len > 0, "post-state reached with a non-empty vector");
            assert!(r.len <= r.cap, "C03: len > capacity after the operation");
            assert!(r.v.fits(r.len), "C03: storage bits at index >= len (padding or spare words) after the operation");
        });
    };
}

// Bvd with 2 allocated words. Operations that may reallocate (resize/truncate/sign_extend/
// append/prepend/push go through reserve) get *concrete* target lengths: with a symbolic
// target CBMC has to encode the (infeasible) reallocation with a symbolic size and runs out
// of memory.
h_step_heap!(c03_q_heap_set_bvd2, 4, bvd2(anylen(128)), iu8(), |a, b, rb, k, bit, n| { nd::assume(k < n); a.set(k, bit); });
h_step_heap!(c03_q_heap_pop_bvd2, 4, bvd2(anylen(128)), iu8(), |a, b, rb, k, bit, n| { let _ = a.pop(); });
h_step_heap!(c03_q_heap_push_bvd2_l63, 4, bvd2(63), iu8(), |a, b, rb, k, bit, n| { a.push(bit); });
h_step_heap!(c03_q_heap_push_bvd2_l64, 4, bvd2(64), iu8(), |a, b, rb, k, bit, n| { a.push(bit); });
h_step_heap!(c03_q_heap_push_full_bvd1, 4, bvd1(64), iu8(), |a, b, rb, k, bit, n| { a.push(bit); });
// resize/truncate/sign_extend: `reserve(new_len - len)` recomputes `len + (new_len - len)`, which
// CBMC keeps symbolic unless both are concrete -> concrete (len, target) pairs, symbolic contents.
h_step_heap!(c03_q_heap_resize_bvd2_l70_to64, 5, bvd2(70), iu8(), |a, b, rb, k, bit, n| { a.resize(64, bit); });
h_step_heap!(c03_q_heap_resize_bvd2_l70_to3, 5, bvd2(70), iu8(), |a, b, rb, k, bit, n| { a.resize(3, bit); });
h_step_heap!(c03_q_heap_resize_bvd2_l64_to65, 5, bvd2(64), iu8(), |a, b, rb, k, bit, n| { a.resize(65, bit); });
h_step_heap!(c03_q_heap_resize_bvd2_l1_to128, 5, bvd2(1), iu8(), |a, b, rb, k, bit, n| { a.resize(128, bit); });
h_step_heap!(c03_q_heap_resize_bvd2_l63_to127, 5, bvd2(63), iu8(), |a, b, rb, k, bit, n| { a.resize(127, bit); });
h_step_heap!(c03_q_heap_resize_bvd2_l128_to0_to5, 5, bvd2(128), iu8(), |a, b, rb, k, bit, n| { a.resize(0, bit); a.resize(5, Bit::One); });
h_step_heap!(c03_q_heap_resize_grow_bvd1_l60_to129, 5, bvd1(60), iu8(), |a, b, rb, k, bit, n| { a.resize(129, bit); });
h_step_heap!(c03_q_heap_truncate_bvd2_l100_to65, 5, bvd2(100), iu8(), |a, b, rb, k, bit, n| { a.truncate(65); });
h_step_heap!(c03_q_heap_truncate_bvd2_l100_to1, 5, bvd2(100), iu8(), |a, b, rb, k, bit, n| { a.truncate(1); });
h_step_heap!(c03_q_heap_signext_bvd2_l66_to127, 5, bvd2(66), iu8(), |a, b, rb, k, bit, n| { a.sign_extend(127); });
h_step_heap!(c03_q_heap_resize_bvfix_l100_to77, 5, bvfix(100), iu8(), |a, b, rb, k, bit, n| { a.resize(77, bit); });
h_step_heap!(c03_q_heap_resize_bvfix_l100_to130, 5, bvfix(100), iu8(), |a, b, rb, k, bit, n| { a.resize(130, bit); });
h_step_heap!(c03_q_heap_resize_bvdyn2_l70_to100, 5, bvdyn2(70), iu8(), |a, b, rb, k, bit, n| { a.resize(100, bit); });
h_step_heap!(c03_q_heap_append_bvd2_l60_f8x3_l21, 9, bvd2(60), f8x3(21), |a, b, rb, k, bit, n| { a.append(&b); });
h_step_heap!(c03_q_heap_append_bvd2_l64_f16x1_l9, 9, bvd2(64), f16x1(9), |a, b, rb, k, bit, n| { a.append(&b); });
h_step_heap!(c03_q_heap_prepend_bvd2_l70_f16x1_l13, 9, bvd2(70), f16x1(13), |a, b, rb, k, bit, n| { a.prepend(&b); });
h_step_heap!(c03_q_heap_shlin_bvd2, 4, bvd2(anylen(128)), iu8(), |a, b, rb, k, bit, n| { let _ = a.shl_in(bit); });
h_step_heap!(c03_q_heap_shrin_bvd2, 4, bvd2(anylen(128)), iu8(), |a, b, rb, k, bit, n| { let _ = a.shr_in(bit); });
h_step_heap!(c03_q_heap_rotl_bvd2, 6, bvd2(anylen(128)), iu8(), |a, b, rb, k, bit, n| { nd::assume(k <= n); a.rotl(k); });
h_step_heap!(c03_q_heap_rotr_bvd2, 6, bvd2(anylen(128)), iu8(), |a, b, rb, k, bit, n| { nd::assume(k <= n); a.rotr(k); });
h_step_heap!(c03_q_heap_shl_bvd2, 6, bvd2(anylen(128)), iu8(), |a, b, rb, k, bit, n| { a <<= k; });
h_step_heap!(c03_q_heap_shr_bvd2, 6, bvd2(anylen(128)), iu8(), |a, b, rb, k, bit, n| { a >>= k; });
h_step_heap!(c03_q_heap_not_bvd2, 4, bvd2(anylen(128)), iu8(), |a, b, rb, k, bit, n| { a = !a; });
h_step_heap!(c03_q_heap_and_bvd2_f64x3, 4, bvd2(anylen(128)), f64x3(anylen(192)), |a, b, rb, k, bit, n| { a &= &b; });
h_step_heap!(c03_q_heap_or_bvd2_f64x3, 4, bvd2(anylen(128)), f64x3(anylen(192)), |a, b, rb, k, bit, n| { a |= &b; });
h_step_heap!(c03_q_heap_xor_bvd2_bvd3, 4, bvd2(anylen(128)), bvd3(anylen(192)), |a, b, rb, k, bit, n| { a ^= &b; });
h_step_heap!(c03_q_heap_add_bvd2_f64x3, 4, bvd2(anylen(128)), f64x3(anylen(192)), |a, b, rb, k, bit, n| { a += &b; });
h_step_heap!(c03_q_heap_sub_bvd2_f64x3, 4, bvd2(anylen(128)), f64x3(anylen(192)), |a, b, rb, k, bit, n| { a -= &b; });
h_step_heap!(c03_q_heap_sub_bvd2_u128, 4, bvd2(anylen(128)), iu128(), |a, b, rb, k, bit, n| { a -= &b; });
h_step_heap!(c03_q_heap_or_bvd2_u128, 4, bvd2(anylen(128)), iu128(), |a, b, rb, k, bit, n| { a |= &b; });
h_step_heap!(c03_q_heap_reserve_bvd2_l70_60, 4, bvd2(70), iu8(), |a, b, rb, k, bit, n| { a.reserve(60); });
h_step_heap!(c03_q_heap_reserve_grow_bvd1_l33, 4, bvd1(33), iu8(), |a, b, rb, k, bit, n| { a.reserve(100); });
h_step_heap!(c03_q_heap_shrink_bvd3_l64, 5, bvd3(64), iu8(), |a, b, rb, k, bit, n| { a.shrink_to_fit(); });
h_step_heap!(c03_q_heap_shrink_bvd3_l65, 5, bvd3(65), iu8(), |a, b, rb, k, bit, n| { a.shrink_to_fit(); });
h_step_heap!(c03_q_heap_shrink_bvd2_l1, 4, bvd2(1), iu8(), |a, b, rb, k, bit, n| { a.shrink_to_fit(); });
// Bv in both modes, including the switches
h_step_heap!(c03_q_heap_push_bvfix_full, 5, bvfix(128), iu8(), |a, b, rb, k, bit, n| { a.push(bit); });
h_step_heap!(c03_q_heap_or_bvfix_bvdyn3, 4, bvfix(anylen(128)), bvdyn3(anylen(192)), |a, b, rb, k, bit, n| { a |= &b; });
h_step_heap!(c03_q_heap_sub_bvdyn2_f64x3, 4, bvdyn2(anylen(128)), f64x3(anylen(192)), |a, b, rb, k, bit, n| { a -= &b; });
h_step_heap!(c03_q_heap_xor_bvdyn2_u128, 4, bvdyn2(anylen(128)), iu128(), |a, b, rb, k, bit, n| { a ^= &b; });
h_step_heap!(c03_q_heap_shrink_bvdyn2_l100, 5, bvdyn2(100), iu8(), |a, b, rb, k, bit, n| { a.shrink_to_fit(); });
h_step_heap!(c03_q_heap_reserve_bvfix_l100, 5, bvfix(100), iu8(), |a, b, rb, k, bit, n| { a.reserve(60); });
h_step_heap!(c03_t_heap_append_bvfix_l70_f64x2_l60, 6, bvfix(70), f64x2(60), |a, b, rb, k, bit, n| { a.append(&b); });
h_step_heap!(c03_t_heap_shl_bvd3, 8, bvd3(anylen(192)), iu8(), |a, b, rb, k, bit, n| { a <<= k; });
h_step_heap!(c03_t_heap_shr_bvd3, 8, bvd3(anylen(192)), iu8(), |a, b, rb, k, bit, n| { a >>= k; });
h_step_heap!(c03_t_heap_add_bvd3_f128x2, 5, bvd3(anylen(192)), f128x2(anylen(256)), |a, b, rb, k, bit, n| { a += &b; });

// =========================================================================================
// (I1) constructors establish Inv
// =========================================================================================

macro_rules! h_ctor {
    ($name:ident, $unw:literal, $ty:ty, |$k:ident, $bit:ident| $mk:expr, $wantlen:expr) => {
        harness!($name, $unw, {
            let $k = nd::usize();
            let $bit = nd::bit();
            let v: $ty = $mk;
            let r = v.into_raw();
            w!(r.len == $wantlen, "constructor returned");
            assert!(r.len == $wantlen, "C03: constructor returned the wrong length");
            assert!(r.len <= r.cap, "C03: constructor returned len > capacity");
            assert!(r.v.fits(r.len), "C03: constructor left storage bits at index >= len");
        });
    };
}

h_ctor!(c03_q_ctor_zeros_f8x3, 5, Bvf<u8, 3>, |k, bit| { nd::assume(k <= 24); Bvf::<u8, 3>::zeros(k) }, k);
h_ctor!(c03_q_ctor_ones_f8x3, 5, Bvf<u8, 3>, |k, bit| { nd::assume(k <= 24); Bvf::<u8, 3>::ones(k) }, k);
h_ctor!(c03_q_ctor_repeat_f16x2, 4, Bvf<u16, 2>, |k, bit| { nd::assume(k <= 32); Bvf::<u16, 2>::repeat(bit, k) }, k);
h_ctor!(c03_q_ctor_ones_f64x2, 4, Bvf<u64, 2>, |k, bit| { nd::assume(k <= 128); Bvf::<u64, 2>::ones(k) }, k);
h_ctor!(c03_q_ctor_ones_bv_inline, 4, Bv, |k, bit| { nd::assume(k <= 128); Bv::ones(k) }, k);
h_ctor!(c03_q_ctor_ones_bvd_l1, 4, Bvd, |k, bit| Bvd::ones(1), 1);
h_ctor!(c03_q_ctor_ones_bvd_l64, 4, Bvd, |k, bit| Bvd::ones(64), 64);
h_ctor!(c03_q_ctor_ones_bvd_l65, 4, Bvd, |k, bit| Bvd::ones(65), 65);
h_ctor!(c03_q_ctor_ones_bvd_l127, 4, Bvd, |k, bit| Bvd::ones(127), 127);
h_ctor!(c03_q_ctor_repeat_bvd_l130, 5, Bvd, |k, bit| Bvd::repeat(bit, 130), 130);
h_ctor!(c03_q_ctor_ones_bv_l129, 5, Bv, |k, bit| Bv::ones(129), 129);
h_ctor!(c03_q_ctor_withcap_bvd_c130, 5, Bvd, |k, bit| Bvd::with_capacity(130), 0);
h_ctor!(c03_q_ctor_withcap_bv_c129, 5, Bv, |k, bit| Bv::with_capacity(129), 0);
h_ctor!(c03_q_ctor_withcap_f8x2, 4, Bvf<u8, 2>, |k, bit| Bvf::<u8, 2>::with_capacity(k), 0);
h_ctor!(c03_t_ctor_ones_bvd_sym, 4, Bvd, |k, bit| { nd::assume(k <= 128); Bvd::ones(k) }, k);

/// `read` with arbitrary surplus bits in the most significant byte (the case the test-suite
/// never feeds): the result must have exactly `len` bits and clean storage.
macro_rules! h_read {
    ($name:ident, $unw:literal, $ty:ty, $nbytes:literal, $len:literal) => {
        harness!($name, $unw, {
            let mut bytes = [0u8; $nbytes];
            let mut i = 0;
            while i < $nbytes {
                bytes[i] = nd::u8();
                i += 1;
            }
            // the length is concrete because read() allocates its buffer by length
            let len: usize = $len;
            let e = nd::endianness();
            let top = if matches!(e, Endianness::Big) { bytes[0] } else { bytes[$nbytes - 1] };
            w!(len % 8 != 0 && (top >> (len % 8)) != 0, "surplus bits of the most significant byte are set");
            let mut rd: &[u8] = &bytes;
            let v = match <$ty>::read(&mut rd, len, e) {
                Ok(v) => v,
                Err(err) => {
                    std::mem::forget(err);
                    panic!("C03: read failed on sufficient input");
                }
            };
            let r = v.into_raw();
            assert!(r.len == len, "C03: read returned the wrong length");
            assert!(r.v.fits(r.len), "C03: read kept surplus bits beyond len in storage");
        });
    };
}

h_read!(c03_q_ctor_read_f8x2_l13, 4, Bvf<u8, 2>, 2, 13);
h_read!(c03_q_ctor_read_f8x3_l9, 5, Bvf<u8, 3>, 2, 9);
h_read!(c03_q_ctor_read_f16x2_l21, 5, Bvf<u16, 2>, 3, 21);
h_read!(c03_q_ctor_read_f64x2_l70, 11, Bvf<u64, 2>, 9, 70);
h_read!(c03_q_ctor_read_bv_l13, 4, Bv, 2, 13);
h_read!(c03_q_ctor_read_bvd_l70, 11, Bvd, 9, 70);
h_read!(c03_t_ctor_read_bv_l133, 19, Bv, 17, 133);

// =========================================================================================
// (I3) observers do not see spare capacity or the storage mode
// =========================================================================================

/// Records the words fed to it (the Hash impls of bva feed one usize and then u64 words), so
/// that two hash streams can be compared exactly. Loop-free.
pub struct Rec {
    pub w: [u64; 6],
    pub n: usize,
}
impl Rec {
    pub fn new() -> Rec {
        Rec { w: [0; 6], n: 0 }
    }
    #[inline(always)]
    fn put(&mut self, x: u64) {
        if self.n < 6 {
            self.w[self.n] = x;
        }
        self.n += 1;
    }
    #[inline(always)]
    pub fn same(&self, o: &Rec) -> bool {
        self.n == o.n
            && self.n <= 6
            && self.w[0] == o.w[0]
            && self.w[1] == o.w[1]
            && self.w[2] == o.w[2]
            && self.w[3] == o.w[3]
            && self.w[4] == o.w[4]
            && self.w[5] == o.w[5]
    }
}
impl Hasher for Rec {
    fn finish(&self) -> u64 {
        0
    }
    fn write(&mut self, _bytes: &[u8]) {
        panic!("HARNESS: byte-wise Hasher::write is not modelled by the recording hasher");
    }
    fn write_u8(&mut self, i: u8) {
        self.put(0x0800_0000_0000_0000 | i as u64)
    }
    fn write_u16(&mut self, i: u16) {
        self.put(0x1000_0000_0000_0000 | i as u64)
    }
    fn write_u32(&mut self, i: u32) {
        self.put(0x2000_0000_0000_0000 | i as u64)
    }
    fn write_u64(&mut self, i: u64) {
        self.put(i)
    }
    fn write_usize(&mut self, i: usize) {
        self.put(i as u64)
    }
    fn write_u128(&mut self, i: u128) {
        self.put(i as u64);
        self.put((i >> 64) as u64)
    }
}

/// The observer battery on two vectors holding the same (len, bits), in three groups (a
/// harness with heap vectors and the whole battery does not finish within the quick budget).
macro_rules! observers_agree {
    (0, $x:ident, $y:ident, $n:ident) => {
        let i = nd::usize();
        if i < $n {
            assert!($x.get(i) == $y.get(i), "C03: get() depends on spare capacity / storage mode");
        }
        assert!($x.len() == $y.len(), "C03: len() differs");
        assert!($x.is_zero() == $y.is_zero(), "C03: is_zero() depends on spare capacity / storage mode");
        assert!($x.first() == $y.first() && $x.last() == $y.last(), "C03: first()/last() differ");
        assert!($x == $y && $y == $x, "C03: vectors with equal (len, bits) compare unequal");
        assert!($x.cmp(&$y) == std::cmp::Ordering::Equal, "C03: cmp() of equal (len, bits) is not Equal");
    };
    (1, $x:ident, $y:ident, $n:ident) => {
        assert!($x.leading_zeros() == $y.leading_zeros(), "C03: leading_zeros() differs");
        assert!($x.leading_ones() == $y.leading_ones(), "C03: leading_ones() differs");
        assert!($x.trailing_zeros() == $y.trailing_zeros(), "C03: trailing_zeros() differs");
        assert!($x.trailing_ones() == $y.trailing_ones(), "C03: trailing_ones() differs");
        assert!($x.significant_bits() == $y.significant_bits(), "C03: significant_bits() differs");
    };
    (2, $x:ident, $y:ident, $n:ident) => {
        assert!(u64::try_from(&$x) == u64::try_from(&$y), "C03: conversion to u64 differs");
        assert!(u128::try_from(&$x) == u128::try_from(&$y), "C03: conversion to u128 differs");
        let mut hx = Rec::new();
        let mut hy = Rec::new();
        $x.hash(&mut hx);
        $y.hash(&mut hy);
        assert!(hx.same(&hy), "C03: hash stream depends on spare capacity / storage mode");
    };
}

macro_rules! h_obs {
    ($n0:ident, $n1:ident, $n2:ident, $unw:literal, |$n:ident| $mk:block) => {
        harness!($n0, $unw, { let (x, y, $n) = $mk; observers_agree!(0, x, y, $n); });
        harness!($n1, $unw, { let (x, y, $n) = $mk; observers_agree!(1, x, y, $n); });
        harness!($n2, $unw, { let (x, y, $n) = $mk; observers_agree!(2, x, y, $n); });
    };
}

// `Bvd` with one spare word vs the exact-fit `Bvd` of the same (len, bits).
h_obs!(c03_q_obs0_bvd_spare_vs_fit, c03_q_obs1_bvd_spare_vs_fit, c03_q_obs2_bvd_spare_vs_fit, 5, |n| {
    let n = nd::upto(64);
    let w0 = nd::u64() & m64(n);
    w!(n == 64 && w0 == u64::MAX, "full word of ones next to a spare word");
    w!(n == 0, "empty");
    w!(n > 0 && w0 == 0, "all zeros");
    (Bvd::new(Box::new([w0, 0u64]) as Box<[u64]>, n), Bvd::new(Box::new([w0]) as Box<[u64]>, n), n)
});

// `Bvd` 3 words allocated, 2 in use, vs exact fit.
h_obs!(c03_q_obs0_bvd3_spare_vs_fit, c03_q_obs1_bvd3_spare_vs_fit, c03_q_obs2_bvd3_spare_vs_fit, 6, |n| {
    let n = nd::usize();
    nd::assume(n > 64 && n <= 128);
    let w0 = nd::u64();
    let w1 = nd::u64() & m64(n - 64);
    w!(n == 128 && w1 == u64::MAX, "two full words next to a spare word");
    w!(w0 == 0 && w1 == 0, "all zeros");
    (Bvd::new(Box::new([w0, w1, 0u64]) as Box<[u64]>, n), Bvd::new(Box::new([w0, w1]) as Box<[u64]>, n), n)
});

// `Bv` inline vs `Bv` on the heap holding the same bits (heap: spare word when n <= 64).
// `Bvd == Bvf` / `partial_cmp` iterate `max(bit length, words)` times (dynamic.rs:825,850), so
// the comparison group needs unwind = len + 2: len <= 10 in quick, <= 66 in thorough.
macro_rules! bv_pair {
    ($max:literal) => {{
        let n = nd::upto($max);
        let w0 = nd::u64() & m64(n);
        let w1 = nd::u64() & m64(if n > 64 { n - 64 } else { 0 });
        w!(n <= 64 && w0 != 0, "heap vector with a spare word");
        w!(n == 0, "empty");
        (Bv::Fixed(Bvf::new([w0, w1], n)), Bv::Dynamic(Bvd::new(Box::new([w0, w1]) as Box<[u64]>, n)), n)
    }};
}
harness!(c03_q_obs0_bv_inline_vs_heap_l10, 12, { let (x, y, n) = bv_pair!(10); observers_agree!(0, x, y, n); });
harness!(c03_t_obs0_bv_inline_vs_heap_l66, 68, { let (x, y, n) = bv_pair!(66); observers_agree!(0, x, y, n); });
harness!(c03_q_obs1_bv_inline_vs_heap, 6, { let (x, y, n) = bv_pair!(128); w!(n > 64, "both words in use"); observers_agree!(1, x, y, n); });
harness!(c03_q_obs2_bv_inline_vs_heap, 6, { let (x, y, n) = bv_pair!(128); w!(n > 64, "both words in use"); observers_agree!(2, x, y, n); });

/// Serialisation (allocates by length: concrete lengths) is blind to spare words / mode.
macro_rules! h_obs_tovec {
    ($name:ident, $unw:literal, $n:literal) => {
        harness!($name, $unw, {
            let n: usize = $n;
            let w0 = nd::u64() & m64(n);
            let w1 = nd::u64() & m64(if n > 64 { n - 64 } else { 0 });
            let x = Bv::Fixed(Bvf::new([w0, w1], n));
            let y = Bvd::new(Box::new([w0, w1, 0u64]) as Box<[u64]>, n);
            let e = nd::endianness();
            w!(w0 != 0, "non-zero low word");
            let vx = x.to_vec(e);
            let vy = y.to_vec(e);
            assert!(vx.len() == (n + 7) / 8 && vy.len() == vx.len(), "C03: to_vec() length differs");
            let i = nd::usize();
            nd::assume(i < vx.len());
            assert!(vx[i] == vy[i], "C03: to_vec() depends on spare capacity / storage mode");
        });
    };
}
h_obs_tovec!(c03_q_obs_tovec_l9, 4, 9);
h_obs_tovec!(c03_q_obs_tovec_l64, 10, 64);
h_obs_tovec!(c03_q_obs_tovec_l100, 15, 100);

// ---- multiplication on the heap implementation leaves Inv intact ------------------------------------
// (operands with few structurally symbolic bits: a full-width symbolic 64x64 product is out of
// reach; the byte just below `len` makes the product wrap into the masked top word)
macro_rules! h_step_heap_mul {
    ($name:ident, $unw:literal, $len:literal, $mk:expr, |$a:ident, $b:ident| $body:block) => {
        harness!($name, $unw, {
            let n: usize = $len;
            let top = (nd::u8() as u128) << (n - 8);
            let w0 = ((nd::u8() as u64) | (nd::u8() as u64) << 56 | top as u64) & m64(n);
            let w1 = ((nd::u8() as u64) | (top >> 64) as u64) & m64(n - 64);
            let mut $a = Bvd::new(Box::new([w0, w1]) as Box<[u64]>, n);
            let $b = $mk;
            w!(w1 != 0 && w0 != 0, "both words of the subject in use");
            $body;
            let r = $a.into_raw();
            assert!(r.len == n, "C03: length changed by a multiplication");
            assert!(r.v.fits(r.len), "C03: storage bits at index >= len after a multiplication");
        });
    };
}
h_step_heap_mul!(c03_q_heap_mul_bvd2_l100_f64x2, 4, 100, Bvf::<u64, 2>::new([nd::u8() as u64, 0], 70), |a, b| { a *= &b; });
h_step_heap_mul!(c03_q_heap_mul_bvd2_l100_bvd1, 4, 100, Bvd::new(Box::new([nd::u8() as u64]) as Box<[u64]>, 20), |a, b| { a *= &b; });
h_step_heap_mul!(c03_q_heap_mul_bvd2_l127_bvfix, 4, 127, Bv::Fixed(Bvf::new([nd::u8() as u64, 0], 9)), |a, b| { a *= &b; });
h_step_heap_mul!(c03_t_heap_mul_bvd2_l100_u16, 5, 100, nd::u8() as u16, |a, b| { a *= b; });
