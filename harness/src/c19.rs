//! C19 — fixed-capacity overflow and bad arguments are signalled, never silently absorbed.
//!
//! Harness kinds (name suffix `_pb` = checked under the dev-like *and* the release-like
//! model, i.e. with `debug_assert!` compiled out; no suffix = dev-like model only):
//!
//! * growth (`harness_mp!`, `_pb`): arbitrary `Inv` pre-state and arbitrary arguments, on
//!   both sides of the capacity edge. Whenever the list edit would exceed the capacity
//!   the call must not return (`never!`); whatever is returned must satisfy
//!   `len <= capacity` and the representation invariant (no bit at index >= len).
//!   Correctness of the in-capacity results is C07's subject.
//! * constructors that panic (`harness_mp!`, `_pb`): `zeros / ones / repeat` beyond capacity.
//! * constructors that return an error (`harness!`, `_pb`: any panic is a failure):
//!   `from_bytes / from_binary / from_hex / read / TryFrom` return `Err` exactly when the
//!   input does not fit and otherwise a vector with `len <= capacity` holding the value.
//! * index checks (`harness_mp!`, dev-like model only): `get / set / copy_range / split_off`
//!   with out-of-range arguments panic.
use crate::big::Big;
use crate::nd;
use crate::scopes::*;
use bva::{Bit, BitVector, Bv, Bvd, Bvf, ConvertionError, Endianness};

#[inline(always)]
fn bit_of(b: bool) -> Bit {
    if b {
        Bit::One
    } else {
        Bit::Zero
    }
}

/// Eight symbolic bits as an array plus their value.
macro_rules! bits8 {
    () => {{
        let raw = nd::u8();
        let all: [Bit; 8] = [
            bit_of(raw & 1 != 0),
            bit_of(raw & 2 != 0),
            bit_of(raw & 4 != 0),
            bit_of(raw & 8 != 0),
            bit_of(raw & 16 != 0),
            bit_of(raw & 32 != 0),
            bit_of(raw & 64 != 0),
            bit_of(raw & 128 != 0),
        ];
        all
    }};
}

/// Replacement for `<[T]>::copy_from_slice` under Kani (CBMC 6.11 mis-models a `memcpy` of
/// symbolic size over elements wider than a byte; see c08.rs). Element-wise, same panic.
#[cfg(kani)]
pub fn copy_from_slice_model<T: Copy>(dst: &mut [T], src: &[T]) {
    assert!(dst.len() == src.len(), "copy_from_slice: source and destination lengths differ");
    let mut i = 0;
    while i < dst.len() {
        dst[i] = src[i];
        i += 1;
    }
}

/// `harness_mp!` plus the `copy_from_slice` stub.
macro_rules! harness_mp_cfs {
    ($name:ident, $unw:literal, $body:block) => {
        #[cfg_attr(kani, kani::proof)]
        #[cfg_attr(kani, kani::unwind($unw))]
        #[cfg_attr(kani, kani::should_panic)]
        #[cfg_attr(kani, kani::stub(<[u64]>::copy_from_slice, copy_from_slice_model))]
        pub fn $name() $body
    };
}

// ---- growth operations: must panic beyond the capacity, never return an over-long vector ----

macro_rules! h_grow_push {
    ($name:ident, $unw:literal, $a:expr) => {
        harness_mp!($name, $unw, {
            let (mut a, ra) = $a;
            let n = ra.len;
            w!(n == ra.cap, "vector is full: push must panic");
            w!(n + 1 == ra.cap, "one free bit left: push must succeed");
            w!(n == 0, "empty vector");
            a.push(nd::bit());
            if n + 1 > ra.cap {
                never!("NEVER:returned");
            }
            let r = a.into_raw();
            assert!(r.len <= r.cap, "C19: push returned a vector with len > capacity");
            assert!(r.inv() && r.len == n + 1, "C19: push returned a broken or silently truncated vector");
        });
    };
}

macro_rules! h_grow_resize {
    ($name:ident, $unw:literal, $a:expr) => {
        harness_mp!($name, $unw, {
            let (mut a, ra) = $a;
            let n = ra.len;
            let m = nd::usize();
            w!(m == ra.cap + 1, "new_len one beyond the capacity");
            w!(m == ra.cap && n < m, "grow to exactly the capacity");
            w!(m == usize::MAX, "new_len = usize::MAX");
            w!(n == ra.cap && m > n, "full vector asked to grow");
            a.resize(m, nd::bit());
            if m > ra.cap {
                never!("NEVER:returned");
            }
            let r = a.into_raw();
            assert!(r.len <= r.cap, "C19: resize returned a vector with len > capacity");
            assert!(r.inv() && r.len == m, "C19: resize returned a broken or silently truncated vector");
        });
    };
}

macro_rules! h_grow_sign_extend {
    ($name:ident, $unw:literal, $a:expr) => {
        harness_mp!($name, $unw, {
            let (mut a, ra) = $a;
            let n = ra.len;
            let m = nd::usize();
            w!(m == ra.cap + 1, "new_length one beyond the capacity");
            w!(m == ra.cap && n < m && n > 0 && ra.v.bit(n - 1), "negative value extended to exactly the capacity");
            w!(m > ra.cap && n == ra.cap, "full vector asked to grow");
            a.sign_extend(m);
            if m > ra.cap {
                never!("NEVER:returned");
            }
            let r = a.into_raw();
            assert!(r.len <= r.cap, "C19: sign_extend returned a vector with len > capacity");
            assert!(r.inv() && r.len == if m > n { m } else { n }, "C19: sign_extend returned a broken or silently truncated vector");
        });
    };
}

macro_rules! wit_grow2 {
    ($ra:ident, $rx:ident) => {
        w!($ra.len + $rx.len == $ra.cap + 1, "one bit too many");
        w!($ra.len + $rx.len == $ra.cap && $rx.len > 0, "fills the capacity exactly");
        w!($ra.len == $ra.cap && $rx.len == 0, "full vector, empty operand (must succeed)");
        w!($ra.len == 0 && $rx.len > $ra.cap, "empty vector, operand alone exceeds the capacity");
    };
}

macro_rules! h_grow_append {
    ($name:ident, $unw:literal, $a:expr, $x:expr) => {
        harness_mp!($name, $unw, {
            let (mut a, ra) = $a;
            let (x, rx) = $x;
            let n = ra.len;
            wit_grow2!(ra, rx);
            a.append(&x);
            if n + rx.len > ra.cap {
                never!("NEVER:returned");
            }
            let r = a.into_raw();
            assert!(r.len <= r.cap, "C19: append returned a vector with len > capacity");
            assert!(r.inv() && r.len == n + rx.len, "C19: append returned a broken or silently truncated vector");
        });
    };
}

macro_rules! h_grow_prepend {
    ($name:ident, $unw:literal, $a:expr, $x:expr) => {
        harness_mp!($name, $unw, {
            let (mut a, ra) = $a;
            let (x, rx) = $x;
            let n = ra.len;
            wit_grow2!(ra, rx);
            a.prepend(&x);
            if n + rx.len > ra.cap {
                never!("NEVER:returned");
            }
            let r = a.into_raw();
            assert!(r.len <= r.cap, "C19: prepend returned a vector with len > capacity");
            assert!(r.inv() && r.len == n + rx.len, "C19: prepend returned a broken or silently truncated vector");
        });
    };
}

macro_rules! h_grow_insert {
    ($name:ident, $unw:literal, $a:expr, $x:expr) => {
        harness_mp_cfs!($name, $unw, {
            let (mut a, ra) = $a;
            let (x, rx) = $x;
            let n = ra.len;
            let i = nd::upto(n);
            wit_grow2!(ra, rx);
            w!(i > 0 && i < n && n + rx.len > ra.cap, "overflowing insert in the middle");
            a.insert(i, &x);
            if n + rx.len > ra.cap {
                never!("NEVER:returned");
            }
            let r = a.into_raw();
            assert!(r.len <= r.cap, "C19: insert returned a vector with len > capacity");
            assert!(r.inv() && r.len == n + rx.len, "C19: insert returned a broken or silently truncated vector");
        });
    };
}

/// extend with `k` (symbolic, 0..=8) bits from a slice iterator.
macro_rules! h_grow_extend_bits {
    ($name:ident, $unw:literal, $a:expr) => {
        harness_mp!($name, $unw, {
            let (mut a, ra) = $a;
            let n = ra.len;
            let bits = bits8!();
            let k = nd::upto(8);
            w!(n + k == ra.cap + 1, "one bit too many");
            w!(n + k == ra.cap && k > 0, "fills the capacity exactly");
            w!(n == ra.cap && k == 0, "full vector, no bits (must succeed)");
            a.extend(bits[..k].iter().copied());
            if n + k > ra.cap {
                never!("NEVER:returned");
            }
            let r = a.into_raw();
            assert!(r.len <= r.cap, "C19: extend returned a vector with len > capacity");
            assert!(r.inv() && r.len == n + k, "C19: extend returned a broken or silently truncated vector");
        });
    };
}

/// extend from the bit iterator of another vector.
macro_rules! h_grow_extend_iter {
    ($name:ident, $unw:literal, $a:expr, $x:expr) => {
        harness_mp!($name, $unw, {
            let (mut a, ra) = $a;
            let (x, rx) = $x;
            let n = ra.len;
            wit_grow2!(ra, rx);
            a.extend(x.iter());
            if n + rx.len > ra.cap {
                never!("NEVER:returned");
            }
            let r = a.into_raw();
            assert!(r.len <= r.cap, "C19: extend returned a vector with len > capacity");
            assert!(r.inv() && r.len == n + rx.len, "C19: extend returned a broken or silently truncated vector");
        });
    };
}

/// collect the bits of another vector into the fixed type.
macro_rules! h_grow_collect {
    ($name:ident, $unw:literal, $T:ty, $cap:literal, $x:expr) => {
        harness_mp!($name, $unw, {
            let (x, rx) = $x;
            w!(rx.len == $cap + 1, "one bit too many");
            w!(rx.len == $cap, "fills the capacity exactly");
            w!(rx.len == 0, "no bits");
            let c: $T = x.iter().collect();
            if rx.len > $cap {
                never!("NEVER:returned");
            }
            let r = c.into_raw();
            assert!(r.len <= r.cap, "C19: collect returned a vector with len > capacity");
            assert!(r.inv() && r.len == rx.len && r.v == rx.v, "C19: collect returned a broken or silently truncated vector");
        });
    };
}

// ---- constructors that must panic ---------------------------------------------------------------

macro_rules! h_ctor_panics {
    ($name:ident, $unw:literal, $T:ty, $cap:literal) => {
        harness_mp!($name, $unw, {
            let len = nd::usize();
            nd::assume(len > $cap);
            let which = nd::upto(3);
            w!(len == $cap + 1 && which == 0, "zeros(capacity + 1)");
            w!(len == $cap + 1 && which == 1, "ones(capacity + 1)");
            w!(len == usize::MAX && which == 1, "ones(usize::MAX)");
            w!(which >= 2, "repeat(bit, len)");
            let r = if which == 0 {
                <$T>::zeros(len)
            } else if which == 1 {
                <$T>::ones(len)
            } else if which == 2 {
                <$T>::repeat(Bit::Zero, len)
            } else {
                <$T>::repeat(Bit::One, len)
            };
            never!("NEVER:returned");
        });
    };
}

/// The accepting side of the same constructors: within the capacity they do not panic and
/// give `len <= capacity` (normal harness: any panic fails it).
macro_rules! h_ctor_ok {
    ($name:ident, $unw:literal, $T:ty, $cap:literal) => {
        harness!($name, $unw, {
            let len = nd::upto($cap);
            let which = nd::upto(1);
            w!(len == $cap && which == 1, "ones(capacity)");
            w!(len == 0, "length 0");
            let r = if which == 0 { <$T>::zeros(len) } else { <$T>::ones(len) };
            let r = r.into_raw();
            assert!(r.len == len && r.len <= r.cap && r.inv(), "C19: zeros/ones within capacity: wrong length or broken invariant");
            assert!(r.v == if which == 0 { Big::ZERO } else { Big::mask(len) }, "C19: zeros/ones within capacity: wrong bits");
        });
    };
}

// ---- constructors that must return an error ----------------------------------------------------

/// from_bytes with `$k` (concrete, <= 4) bytes of symbolic content.
macro_rules! h_from_bytes {
    ($name:ident, $unw:literal, $T:ty, $cap:literal, $k:literal) => {
        harness!($name, $unw, {
            let bytes = [nd::u8(), nd::u8(), nd::u8(), nd::u8()];
            let e = nd::endianness();
            w!(e == Endianness::Big, "big endian");
            w!(bytes[0] != 0 && bytes[$k - 1] == 0xff, "first byte non-zero, last byte all ones");
            let r = <$T>::from_bytes(&bytes[..$k], e);
            if $k * 8 > $cap {
                assert!(matches!(r, Err(ConvertionError::NotEnoughCapacity)), "C19: from_bytes beyond capacity did not return NotEnoughCapacity");
            } else {
                match r {
                    Ok(v) => {
                        let r = v.into_raw();
                        assert!(r.len == $k * 8 && r.len <= r.cap && r.inv(), "C19: from_bytes within capacity: wrong length or broken invariant");
                    }
                    Err(_) => assert!(false, "C19: from_bytes within capacity returned an error"),
                }
            }
        });
    };
}

/// from_binary / from_hex with `$k` ASCII characters (concrete count, symbolic content).
macro_rules! h_from_str {
    ($name:ident, $unw:literal, $T:ty, $cap:literal, $k:literal, $f:ident, $bits_per_char:literal) => {
        harness!($name, $unw, {
            let mut bytes = [b'0'; $k];
            // two symbolic ASCII characters (first and last), the rest are the digit '0'
            let c0 = nd::u8();
            let c1 = nd::u8();
            nd::assume(c0 < 128 && c1 < 128);
            bytes[$k - 1] = c1;
            bytes[0] = c0;
            w!(c0 == b'1' && (c1 == b'1' || $k == 1), "valid digits at both ends");
            w!(c0 == b'x', "invalid first character (length is checked first)");
            let s = unsafe { core::str::from_utf8_unchecked(&bytes[..]) };
            let r = <$T>::$f(s);
            if $k * $bits_per_char > $cap {
                assert!(matches!(r, Err(ConvertionError::NotEnoughCapacity)), "C19: from_binary/from_hex beyond capacity did not return NotEnoughCapacity");
            } else {
                match r {
                    Ok(v) => {
                        let r = v.into_raw();
                        assert!(r.len == $k * $bits_per_char && r.len <= r.cap && r.inv(), "C19: from_binary/from_hex within capacity: wrong length or broken invariant");
                    }
                    Err(e) => assert!(matches!(e, ConvertionError::InvalidFormat(_)), "C19: from_binary/from_hex within capacity returned NotEnoughCapacity"),
                }
            }
        });
    };
}

/// read with a symbolic length above the capacity: error, nothing consumed, no panic.
macro_rules! h_read_err {
    ($name:ident, $unw:literal, $T:ty, $cap:literal) => {
        harness!($name, $unw, {
            let len = nd::usize();
            nd::assume(len > $cap);
            let data = [nd::u8(), nd::u8(), nd::u8(), nd::u8()];
            let mut rd: &[u8] = &data[..];
            let e = nd::endianness();
            w!(len == $cap + 1, "length one beyond the capacity");
            w!(len == usize::MAX, "length usize::MAX");
            let r = <$T>::read(&mut rd, len, e);
            assert!(r.is_err(), "C19: read beyond capacity did not return an error");
            assert!(rd.len() == 4, "C19: read beyond capacity consumed input");
        });
    };
}

/// read with a (concrete: the buffer is allocated by it) length within the capacity from a
/// long enough source: Ok, len <= capacity, invariant holds.
macro_rules! h_read_ok {
    ($name:ident, $unw:literal, $T:ty, $cap:literal, $len:literal) => {
        harness!($name, $unw, {
            let len: usize = $len;
            let data = [nd::u8(), nd::u8(), nd::u8(), nd::u8()];
            let mut rd: &[u8] = &data[..];
            let e = nd::endianness();
            w!(e == Endianness::Big, "big endian");
            w!(data[0] == 0xff && data[1] == 0xff, "all ones in the bytes read");
            match <$T>::read(&mut rd, len, e) {
                Ok(v) => {
                    let r = v.into_raw();
                    assert!(r.len == len && r.len <= r.cap && r.inv(), "C19: read within capacity: wrong length or broken invariant");
                }
                Err(_) => assert!(false, "C19: read within capacity returned an error"),
            }
        });
    };
}

/// TryFrom<uN>: Err exactly when the value needs more bits than the capacity.
macro_rules! h_try_from_int {
    ($name:ident, $unw:literal, $T:ty, $cap:literal, $I:ident, $draw:ident) => {
        harness!($name, $unw, {
            let x: $I = nd::$draw();
            let bits = <$I>::BITS as usize;
            let sig = (<$I>::BITS - x.leading_zeros()) as usize;
            w!(sig == $cap + 1, "value needs exactly one bit more than the capacity");
            w!(sig == $cap, "value needs exactly the capacity");
            w!(x == 0, "zero");
            let r = <$T>::try_from(x);
            let r2 = <$T>::try_from(&x);
            if sig > $cap {
                assert!(matches!(r, Err(ConvertionError::NotEnoughCapacity)), "C19: TryFrom<uN> of a value that does not fit did not return NotEnoughCapacity");
                assert!(r2.is_err(), "C19: TryFrom<&uN> of a value that does not fit did not return an error");
            } else {
                match (r, r2) {
                    (Ok(v), Ok(v2)) => {
                        let r = v.into_raw();
                        assert!(r.len <= r.cap && r.inv(), "C19: TryFrom<uN>: len > capacity or broken invariant");
                        assert!(r.len == if bits < $cap { bits } else { $cap }, "C19: TryFrom<uN>: length != min(width, capacity)");
                        assert!(r.v == Big::lo(x as u128), "C19: TryFrom<uN>: value changed");
                        assert!(v2.into_raw() == r, "C19: TryFrom<&uN> differs from TryFrom<uN>");
                    }
                    _ => assert!(false, "C19: TryFrom<uN> of a value that fits returned an error"),
                }
            }
        });
    };
}

/// TryFrom<&[J]> with `$k` (concrete, 1..=4) elements of symbolic content.
macro_rules! h_try_from_slice {
    ($name:ident, $unw:literal, $T:ty, $cap:literal, $J:ident, $draw:ident, $k:literal) => {
        harness!($name, $unw, {
            const B: usize = <$J>::BITS as usize;
            let arr: [$J; 4] = [nd::$draw(), nd::$draw(), nd::$draw(), nd::$draw()];
            let want = Big::lo(arr[0] as u128)
                .or(Big::lo(arr[1] as u128).shl(B))
                .or(Big::lo(arr[2] as u128).shl(2 * B))
                .or(Big::lo(arr[3] as u128).shl(3 * B))
                .trunc($k * B);
            w!(arr[$k - 1] == <$J>::MAX, "last element all ones");
            w!(want.is_zero(), "all zeros");
            let r = <$T>::try_from(&arr[..$k]);
            if $k * B > $cap {
                assert!(matches!(r, Err(ConvertionError::NotEnoughCapacity)), "C19: TryFrom<&[J]> beyond capacity did not return NotEnoughCapacity");
            } else {
                match r {
                    Ok(v) => {
                        let r = v.into_raw();
                        assert!(r.len == $k * B && r.len <= r.cap && r.v == want, "C19: TryFrom<&[J]> within capacity: wrong length or value");
                    }
                    Err(_) => assert!(false, "C19: TryFrom<&[J]> within capacity returned an error"),
                }
            }
        });
    };
}

/// TryFrom<&V> for another bit vector V (by reference): Err exactly when len(V) > capacity.
macro_rules! h_try_from_bv {
    ($name:ident, $unw:literal, $T:ty, $cap:literal, $x:expr) => {
        harness!($name, $unw, {
            let (x, rx) = $x;
            w!(rx.len == $cap + 1, "one bit too long");
            w!(rx.len == $cap && rx.v.bit($cap - 1), "exactly the capacity, top bit set");
            w!(rx.len > $cap && rx.v.fits($cap), "too long although the value would fit (still an error)");
            w!(rx.len == 0, "empty");
            let r = <$T>::try_from(&x);
            if rx.len > $cap {
                assert!(matches!(r, Err(ConvertionError::NotEnoughCapacity)), "C19: TryFrom<&vector> longer than the capacity did not return NotEnoughCapacity");
            } else {
                match r {
                    Ok(v) => {
                        let r = v.into_raw();
                        assert!(r.len == rx.len && r.len <= r.cap && r.v == rx.v, "C19: TryFrom<&vector> within capacity: wrong length or value");
                    }
                    Err(_) => assert!(false, "C19: TryFrom<&vector> within capacity returned an error"),
                }
            }
            assert!(x.into_raw() == rx, "C19: TryFrom<&vector> modified its argument");
        });
    };
}

// ---- documented index panics (builds with debug assertions) ------------------------------------

macro_rules! h_idx_get {
    ($name:ident, $unw:literal, $a:expr) => {
        harness_mp!($name, $unw, {
            let (a, ra) = $a;
            let i = nd::usize();
            nd::assume(i >= ra.len);
            w!(i == ra.len && ra.len < ra.cap, "index == len, inside the storage");
            w!(i == ra.len && ra.len == ra.cap, "index == len == capacity");
            w!(i == usize::MAX, "index usize::MAX");
            w!(ra.len == 0, "empty vector");
            let b = a.get(i);
            never!("NEVER:returned");
        });
    };
}

macro_rules! h_idx_set {
    ($name:ident, $unw:literal, $a:expr) => {
        harness_mp!($name, $unw, {
            let (mut a, ra) = $a;
            let i = nd::usize();
            nd::assume(i >= ra.len);
            w!(i == ra.len && ra.len < ra.cap, "index == len, inside the storage");
            w!(i == ra.len && ra.len == ra.cap, "index == len == capacity");
            w!(i == usize::MAX, "index usize::MAX");
            a.set(i, nd::bit());
            never!("NEVER:returned");
        });
    };
}

macro_rules! h_idx_copy_range {
    ($name:ident, $unw:literal, $a:expr) => {
        harness_mp!($name, $unw, {
            let (a, ra) = $a;
            let s = nd::usize();
            let e = nd::usize();
            nd::assume(s > ra.len || e > ra.len);
            w!(s <= e && e == ra.len + 1 && e <= ra.cap, "end one beyond len, still inside the storage");
            w!(s == ra.len + 1 && e == s, "empty range starting beyond len");
            w!(e == usize::MAX && s == 0, "end usize::MAX");
            w!(s > e, "reversed range with an index out of range");
            let r = a.copy_range(s..e);
            never!("NEVER:returned");
        });
    };
}

macro_rules! h_idx_split_off {
    ($name:ident, $unw:literal, $a:expr) => {
        harness_mp!($name, $unw, {
            let (mut a, ra) = $a;
            let i = nd::usize();
            nd::assume(i > ra.len);
            w!(i == ra.len + 1 && i <= ra.cap, "index one beyond len, still inside the storage");
            w!(i == usize::MAX, "index usize::MAX");
            w!(ra.len == 0, "empty vector");
            let r = a.split_off(i);
            never!("NEVER:returned");
        });
    };
}

// ==== generated instantiations ================================================================
// Fixed types: Bvf<u8,1> (8 bits), Bvf<u8,2> (16 bits, multi-word), Bvf<u16,1> (16 bits);
// thorough tier also Bvf<u8,3> and Bvf<u64,1>.
h_grow_push!(c19_q_push_f8x1_pb, 3, f8x1(anylen(8)));
h_grow_resize!(c19_q_resize_f8x1_pb, 3, f8x1(anylen(8)));
h_grow_sign_extend!(c19_q_signext_f8x1_pb, 3, f8x1(anylen(8)));
h_grow_extend_bits!(c19_q_extendbits_f8x1_pb, 11, f8x1(anylen(8)));
h_ctor_panics!(c19_q_ctor_f8x1_pb, 3, Bvf<u8, 1>, 8);
h_ctor_ok!(c19_q_ctorok_f8x1_pb, 3, Bvf<u8, 1>, 8);
h_idx_get!(c19_q_idxget_f8x1, 3, f8x1(anylen(8)));
h_idx_set!(c19_q_idxset_f8x1, 3, f8x1(anylen(8)));
h_idx_copy_range!(c19_q_idxrange_f8x1, 3, f8x1(anylen(8)));
h_idx_split_off!(c19_q_idxsplit_f8x1, 3, f8x1(anylen(8)));
h_grow_push!(c19_q_push_f8x2_pb, 3, f8x2(anylen(16)));
h_grow_resize!(c19_q_resize_f8x2_pb, 4, f8x2(anylen(16)));
h_grow_sign_extend!(c19_q_signext_f8x2_pb, 4, f8x2(anylen(16)));
h_grow_extend_bits!(c19_q_extendbits_f8x2_pb, 11, f8x2(anylen(16)));
h_ctor_panics!(c19_q_ctor_f8x2_pb, 4, Bvf<u8, 2>, 16);
h_ctor_ok!(c19_q_ctorok_f8x2_pb, 4, Bvf<u8, 2>, 16);
h_idx_get!(c19_q_idxget_f8x2, 3, f8x2(anylen(16)));
h_idx_set!(c19_q_idxset_f8x2, 3, f8x2(anylen(16)));
h_idx_copy_range!(c19_q_idxrange_f8x2, 4, f8x2(anylen(16)));
h_idx_split_off!(c19_q_idxsplit_f8x2, 4, f8x2(anylen(16)));
h_grow_push!(c19_q_push_f16x1_pb, 3, f16x1(anylen(16)));
h_grow_resize!(c19_q_resize_f16x1_pb, 3, f16x1(anylen(16)));
h_grow_sign_extend!(c19_q_signext_f16x1_pb, 3, f16x1(anylen(16)));
h_grow_extend_bits!(c19_q_extendbits_f16x1_pb, 11, f16x1(anylen(16)));
h_ctor_panics!(c19_q_ctor_f16x1_pb, 3, Bvf<u16, 1>, 16);
h_ctor_ok!(c19_q_ctorok_f16x1_pb, 3, Bvf<u16, 1>, 16);
h_idx_get!(c19_q_idxget_f16x1, 3, f16x1(anylen(16)));
h_idx_set!(c19_q_idxset_f16x1, 3, f16x1(anylen(16)));
h_idx_copy_range!(c19_q_idxrange_f16x1, 3, f16x1(anylen(16)));
h_idx_split_off!(c19_q_idxsplit_f16x1, 3, f16x1(anylen(16)));
h_grow_push!(c19_t_push_f8x3_pb, 3, f8x3(anylen(24)));
h_grow_resize!(c19_t_resize_f8x3_pb, 5, f8x3(anylen(24)));
h_grow_sign_extend!(c19_t_signext_f8x3_pb, 5, f8x3(anylen(24)));
h_grow_extend_bits!(c19_t_extendbits_f8x3_pb, 11, f8x3(anylen(24)));
h_ctor_panics!(c19_t_ctor_f8x3_pb, 5, Bvf<u8, 3>, 24);
h_ctor_ok!(c19_t_ctorok_f8x3_pb, 5, Bvf<u8, 3>, 24);
h_idx_get!(c19_t_idxget_f8x3, 3, f8x3(anylen(24)));
h_idx_set!(c19_t_idxset_f8x3, 3, f8x3(anylen(24)));
h_idx_copy_range!(c19_t_idxrange_f8x3, 5, f8x3(anylen(24)));
h_idx_split_off!(c19_t_idxsplit_f8x3, 5, f8x3(anylen(24)));
h_grow_push!(c19_t_push_f64x1_pb, 3, f64x1(anylen(64)));
h_grow_resize!(c19_t_resize_f64x1_pb, 3, f64x1(anylen(64)));
h_grow_sign_extend!(c19_t_signext_f64x1_pb, 3, f64x1(anylen(64)));
h_grow_extend_bits!(c19_t_extendbits_f64x1_pb, 11, f64x1(anylen(64)));
h_ctor_panics!(c19_t_ctor_f64x1_pb, 3, Bvf<u64, 1>, 64);
h_ctor_ok!(c19_t_ctorok_f64x1_pb, 3, Bvf<u64, 1>, 64);
h_idx_get!(c19_t_idxget_f64x1, 3, f64x1(anylen(64)));
h_idx_set!(c19_t_idxset_f64x1, 3, f64x1(anylen(64)));
h_idx_copy_range!(c19_t_idxrange_f64x1, 3, f64x1(anylen(64)));
h_idx_split_off!(c19_t_idxsplit_f64x1, 3, f64x1(anylen(64)));

// growth with a vector argument: operands of other word types / implementations, long enough to
// exceed the capacity on their own
h_grow_append!(c19_q_append_f8x1_f8x2_pb, 5, f8x1(anylen(8)), f8x2(anylen(16)));
h_grow_prepend!(c19_q_prepend_f8x1_f8x2_pb, 6, f8x1(anylen(8)), f8x2(anylen(16)));
h_grow_insert!(c19_q_insert_f8x1_f8x2_pb, 6, f8x1(anylen(8)), f8x2(anylen(16)));
h_grow_append!(c19_q_append_f8x1_f16x1_pb, 5, f8x1(anylen(8)), f16x1(anylen(16)));
h_grow_prepend!(c19_q_prepend_f8x1_f16x1_pb, 6, f8x1(anylen(8)), f16x1(anylen(16)));
h_grow_insert!(c19_t_insert_f8x1_f16x1_pb, 6, f8x1(anylen(8)), f16x1(anylen(16)));
h_grow_append!(c19_q_append_f8x1_bvd1_pb, 5, f8x1(anylen(8)), bvd1(anylen(12)));
h_grow_prepend!(c19_q_prepend_f8x1_bvd1_pb, 6, f8x1(anylen(8)), bvd1(anylen(12)));
h_grow_insert!(c19_t_insert_f8x1_bvd1_pb, 6, f8x1(anylen(8)), bvd1(anylen(12)));
h_grow_append!(c19_q_append_f8x2_f8x3_pb, 6, f8x2(anylen(16)), f8x3(anylen(24)));
h_grow_prepend!(c19_q_prepend_f8x2_f8x3_pb, 8, f8x2(anylen(16)), f8x3(anylen(24)));
h_grow_insert!(c19_q_insert_f8x2_f8x3_pb, 8, f8x2(anylen(16)), f8x3(anylen(24)));
h_grow_append!(c19_q_append_f8x2_bvfix_pb, 6, f8x2(anylen(16)), bvfix(anylen(20)));
h_grow_prepend!(c19_q_prepend_f8x2_bvfix_pb, 8, f8x2(anylen(16)), bvfix(anylen(20)));
h_grow_insert!(c19_t_insert_f8x2_bvfix_pb, 8, f8x2(anylen(16)), bvfix(anylen(20)));
h_grow_append!(c19_q_append_f16x1_f8x3_pb, 6, f16x1(anylen(16)), f8x3(anylen(24)));
h_grow_prepend!(c19_q_prepend_f16x1_f8x3_pb, 6, f16x1(anylen(16)), f8x3(anylen(24)));
h_grow_insert!(c19_q_insert_f16x1_f8x3_pb, 6, f16x1(anylen(16)), f8x3(anylen(24)));
h_grow_append!(c19_q_append_f16x1_bvd1_pb, 6, f16x1(anylen(16)), bvd1(anylen(20)));
h_grow_prepend!(c19_q_prepend_f16x1_bvd1_pb, 6, f16x1(anylen(16)), bvd1(anylen(20)));
h_grow_insert!(c19_t_insert_f16x1_bvd1_pb, 6, f16x1(anylen(16)), bvd1(anylen(20)));
h_grow_append!(c19_t_append_f8x1_bvdyn2_pb, 5, f8x1(anylen(8)), bvdyn2(anylen(12)));
h_grow_prepend!(c19_t_prepend_f8x1_bvdyn2_pb, 6, f8x1(anylen(8)), bvdyn2(anylen(12)));
h_grow_insert!(c19_t_insert_f8x1_bvdyn2_pb, 6, f8x1(anylen(8)), bvdyn2(anylen(12)));
h_grow_append!(c19_t_append_f8x2_f64x2_pb, 6, f8x2(anylen(16)), f64x2(anylen(20)));
h_grow_prepend!(c19_t_prepend_f8x2_f64x2_pb, 8, f8x2(anylen(16)), f64x2(anylen(20)));
h_grow_insert!(c19_t_insert_f8x2_f64x2_pb, 8, f8x2(anylen(16)), f64x2(anylen(20)));
h_grow_append!(c19_t_append_f16x1_f16x2_pb, 6, f16x1(anylen(16)), f16x2(anylen(32)));
h_grow_prepend!(c19_t_prepend_f16x1_f16x2_pb, 6, f16x1(anylen(16)), f16x2(anylen(32)));
h_grow_insert!(c19_t_insert_f16x1_f16x2_pb, 6, f16x1(anylen(16)), f16x2(anylen(32)));
h_grow_append!(c19_t_append_f8x3_f8x4_pb, 7, f8x3(anylen(24)), f8x4(anylen(32)));
h_grow_prepend!(c19_t_prepend_f8x3_f8x4_pb, 10, f8x3(anylen(24)), f8x4(anylen(32)));
h_grow_insert!(c19_t_insert_f8x3_f8x4_pb, 10, f8x3(anylen(24)), f8x4(anylen(32)));
h_grow_append!(c19_t_append_f64x1_f64x2_pb, 12, f64x1(anylen(64)), f64x2(anylen(70)));
h_grow_prepend!(c19_t_prepend_f64x1_f64x2_pb, 12, f64x1(anylen(64)), f64x2(anylen(70)));
h_grow_insert!(c19_t_insert_f64x1_f64x2_pb, 12, f64x1(anylen(64)), f64x2(anylen(70)));
h_grow_extend_iter!(c19_q_extend_f8x1_f8x2_pb, 19, f8x1(anylen(8)), f8x2(anylen(16)));
h_grow_collect!(c19_q_collect_f8x1_f8x2_pb, 19, Bvf<u8, 1>, 8, f8x2(anylen(16)));
h_grow_extend_iter!(c19_q_extend_f8x2_f8x3_pb, 27, f8x2(anylen(16)), f8x3(anylen(24)));
h_grow_collect!(c19_q_collect_f8x2_f8x3_pb, 27, Bvf<u8, 2>, 16, f8x3(anylen(24)));
h_grow_extend_iter!(c19_q_extend_f16x1_bvd1_pb, 23, f16x1(anylen(16)), bvd1(anylen(20)));
h_grow_collect!(c19_q_collect_f16x1_bvd1_pb, 23, Bvf<u16, 1>, 16, bvd1(anylen(20)));
h_grow_extend_iter!(c19_t_extend_f8x1_bvfix_pb, 15, f8x1(anylen(8)), bvfix(anylen(12)));
h_grow_collect!(c19_t_collect_f8x1_bvfix_pb, 15, Bvf<u8, 1>, 8, bvfix(anylen(12)));
h_grow_extend_iter!(c19_t_extend_f8x3_f8x4_pb, 35, f8x3(anylen(24)), f8x4(anylen(32)));
h_grow_collect!(c19_t_collect_f8x3_f8x4_pb, 35, Bvf<u8, 3>, 24, f8x4(anylen(32)));

// constructors returning Result: Err exactly beyond the capacity, never a panic
h_from_bytes!(c19_q_frombytes_f8x1_k1_pb, 4, Bvf<u8, 1>, 8, 1);
h_from_bytes!(c19_q_frombytes_f8x1_k2_pb, 5, Bvf<u8, 1>, 8, 2);
h_from_bytes!(c19_q_frombytes_f8x1_k3_pb, 6, Bvf<u8, 1>, 8, 3);
h_from_bytes!(c19_q_frombytes_f8x2_k2_pb, 5, Bvf<u8, 2>, 16, 2);
h_from_bytes!(c19_q_frombytes_f8x2_k3_pb, 6, Bvf<u8, 2>, 16, 3);
h_from_bytes!(c19_q_frombytes_f8x2_k4_pb, 7, Bvf<u8, 2>, 16, 4);
h_from_bytes!(c19_q_frombytes_f16x1_k2_pb, 5, Bvf<u16, 1>, 16, 2);
h_from_bytes!(c19_q_frombytes_f16x1_k3_pb, 6, Bvf<u16, 1>, 16, 3);
h_from_bytes!(c19_q_frombytes_f16x1_k4_pb, 7, Bvf<u16, 1>, 16, 4);
h_from_bytes!(c19_t_frombytes_f8x3_k3_pb, 6, Bvf<u8, 3>, 24, 3);
h_from_bytes!(c19_t_frombytes_f8x3_k4_pb, 7, Bvf<u8, 3>, 24, 4);
h_from_str!(c19_q_frombinary_f8x1_k8_pb, 11, Bvf<u8, 1>, 8, 8, from_binary, 1);
h_from_str!(c19_q_frombinary_f8x1_k9_pb, 12, Bvf<u8, 1>, 8, 9, from_binary, 1);
h_from_str!(c19_q_frombinary_f8x2_k17_pb, 20, Bvf<u8, 2>, 16, 17, from_binary, 1);
h_from_str!(c19_q_frombinary_f16x1_k16_pb, 19, Bvf<u16, 1>, 16, 16, from_binary, 1);
h_from_str!(c19_q_frombinary_f16x1_k17_pb, 20, Bvf<u16, 1>, 16, 17, from_binary, 1);
h_from_str!(c19_t_frombinary_f8x2_k16_pb, 19, Bvf<u8, 2>, 16, 16, from_binary, 1);
h_from_str!(c19_t_frombinary_f8x2_k20_pb, 23, Bvf<u8, 2>, 16, 20, from_binary, 1);
h_from_str!(c19_t_frombinary_f8x1_k12_pb, 15, Bvf<u8, 1>, 8, 12, from_binary, 1);
h_from_str!(c19_q_fromhex_f8x1_k2_pb, 5, Bvf<u8, 1>, 8, 2, from_hex, 4);
h_from_str!(c19_q_fromhex_f8x1_k3_pb, 6, Bvf<u8, 1>, 8, 3, from_hex, 4);
h_from_str!(c19_q_fromhex_f8x2_k4_pb, 7, Bvf<u8, 2>, 16, 4, from_hex, 4);
h_from_str!(c19_q_fromhex_f8x2_k5_pb, 8, Bvf<u8, 2>, 16, 5, from_hex, 4);
h_from_str!(c19_q_fromhex_f16x1_k4_pb, 7, Bvf<u16, 1>, 16, 4, from_hex, 4);
h_from_str!(c19_q_fromhex_f16x1_k5_pb, 8, Bvf<u16, 1>, 16, 5, from_hex, 4);
h_from_str!(c19_t_fromhex_f8x1_k4_pb, 7, Bvf<u8, 1>, 8, 4, from_hex, 4);
h_from_str!(c19_t_fromhex_f8x2_k7_pb, 10, Bvf<u8, 2>, 16, 7, from_hex, 4);
h_read_err!(c19_q_readerr_f8x1_pb, 6, Bvf<u8, 1>, 8);
h_read_err!(c19_q_readerr_f8x2_pb, 6, Bvf<u8, 2>, 16);
h_read_err!(c19_q_readerr_f16x1_pb, 6, Bvf<u16, 1>, 16);
h_read_err!(c19_t_readerr_f8x3_pb, 6, Bvf<u8, 3>, 24);
h_read_ok!(c19_q_readok_f8x1_l8_pb, 8, Bvf<u8, 1>, 8, 8);
h_read_ok!(c19_q_readok_f8x1_l5_pb, 8, Bvf<u8, 1>, 8, 5);
h_read_ok!(c19_q_readok_f8x2_l16_pb, 8, Bvf<u8, 2>, 16, 16);
h_read_ok!(c19_q_readok_f8x2_l9_pb, 8, Bvf<u8, 2>, 16, 9);
h_read_ok!(c19_q_readok_f16x1_l16_pb, 8, Bvf<u16, 1>, 16, 16);
h_read_ok!(c19_t_readok_f16x1_l13_pb, 8, Bvf<u16, 1>, 16, 13);
h_read_ok!(c19_t_readok_f8x3_l24_pb, 8, Bvf<u8, 3>, 24, 24);
h_try_from_int!(c19_q_tryfrom_f8x1_u16_pb, 3, Bvf<u8, 1>, 8, u16, u16);
h_try_from_int!(c19_q_tryfrom_f8x1_u32_pb, 3, Bvf<u8, 1>, 8, u32, u32);
h_try_from_int!(c19_q_tryfrom_f8x1_u64_pb, 3, Bvf<u8, 1>, 8, u64, u64);
h_try_from_int!(c19_q_tryfrom_f8x1_u128_pb, 3, Bvf<u8, 1>, 8, u128, u128);
h_try_from_int!(c19_q_tryfrom_f8x2_u32_pb, 4, Bvf<u8, 2>, 16, u32, u32);
h_try_from_int!(c19_q_tryfrom_f8x2_u64_pb, 4, Bvf<u8, 2>, 16, u64, u64);
h_try_from_int!(c19_q_tryfrom_f16x1_u32_pb, 3, Bvf<u16, 1>, 16, u32, u32);
h_try_from_int!(c19_q_tryfrom_f16x1_u128_pb, 3, Bvf<u16, 1>, 16, u128, u128);
h_try_from_int!(c19_t_tryfrom_f8x2_u128_pb, 4, Bvf<u8, 2>, 16, u128, u128);
h_try_from_int!(c19_t_tryfrom_f16x1_u64_pb, 3, Bvf<u16, 1>, 16, u64, u64);
h_try_from_int!(c19_t_tryfrom_f8x1_usize_pb, 3, Bvf<u8, 1>, 8, usize, usize);
h_try_from_int!(c19_t_tryfrom_f8x3_u32_pb, 5, Bvf<u8, 3>, 24, u32, u32);
h_try_from_int!(c19_t_tryfrom_f8x3_u64_pb, 5, Bvf<u8, 3>, 24, u64, u64);
h_try_from_slice!(c19_q_tryfromslice_f8x1_u8_k1_pb, 10, Bvf<u8, 1>, 8, u8, u8, 1);
h_try_from_slice!(c19_q_tryfromslice_f8x1_u8_k2_pb, 10, Bvf<u8, 1>, 8, u8, u8, 2);
h_try_from_slice!(c19_q_tryfromslice_f8x1_u16_k1_pb, 10, Bvf<u8, 1>, 8, u16, u16, 1);
h_try_from_slice!(c19_q_tryfromslice_f8x2_u8_k2_pb, 10, Bvf<u8, 2>, 16, u8, u8, 2);
h_try_from_slice!(c19_q_tryfromslice_f8x2_u8_k3_pb, 10, Bvf<u8, 2>, 16, u8, u8, 3);
h_try_from_slice!(c19_q_tryfromslice_f8x2_u16_k1_pb, 10, Bvf<u8, 2>, 16, u16, u16, 1);
h_try_from_slice!(c19_q_tryfromslice_f8x2_u16_k2_pb, 10, Bvf<u8, 2>, 16, u16, u16, 2);
h_try_from_slice!(c19_q_tryfromslice_f16x1_u8_k2_pb, 10, Bvf<u16, 1>, 16, u8, u8, 2);
h_try_from_slice!(c19_q_tryfromslice_f16x1_u8_k3_pb, 10, Bvf<u16, 1>, 16, u8, u8, 3);
h_try_from_slice!(c19_q_tryfromslice_f16x1_u16_k1_pb, 10, Bvf<u16, 1>, 16, u16, u16, 1);
h_try_from_slice!(c19_q_tryfromslice_f16x1_u16_k2_pb, 10, Bvf<u16, 1>, 16, u16, u16, 2);
h_try_from_slice!(c19_t_tryfromslice_f8x2_u32_k1_pb, 10, Bvf<u8, 2>, 16, u32, u32, 1);
h_try_from_slice!(c19_t_tryfromslice_f8x3_u8_k3_pb, 10, Bvf<u8, 3>, 24, u8, u8, 3);
h_try_from_slice!(c19_t_tryfromslice_f8x3_u8_k4_pb, 10, Bvf<u8, 3>, 24, u8, u8, 4);
h_try_from_slice!(c19_t_tryfromslice_f16x1_u64_k1_pb, 10, Bvf<u16, 1>, 16, u64, u64, 1);
h_try_from_bv!(c19_q_tryfrom_f8x1_f8x2_pb, 4, Bvf<u8, 1>, 8, f8x2(anylen(16)));
h_try_from_bv!(c19_q_tryfrom_f8x1_f16x1_pb, 4, Bvf<u8, 1>, 8, f16x1(anylen(16)));
h_try_from_bv!(c19_q_tryfrom_f8x1_bvd1_pb, 4, Bvf<u8, 1>, 8, bvd1(anylen(20)));
h_try_from_bv!(c19_q_tryfrom_f8x1_bvfix_pb, 4, Bvf<u8, 1>, 8, bvfix(anylen(20)));
h_try_from_bv!(c19_q_tryfrom_f8x2_f8x3_pb, 5, Bvf<u8, 2>, 16, f8x3(anylen(24)));
h_try_from_bv!(c19_q_tryfrom_f8x2_bvd1_pb, 5, Bvf<u8, 2>, 16, bvd1(anylen(24)));
h_try_from_bv!(c19_q_tryfrom_f8x2_bvdyn2_pb, 5, Bvf<u8, 2>, 16, bvdyn2(anylen(24)));
h_try_from_bv!(c19_q_tryfrom_f16x1_f8x3_pb, 4, Bvf<u16, 1>, 16, f8x3(anylen(24)));
h_try_from_bv!(c19_q_tryfrom_f16x1_f16x2_pb, 4, Bvf<u16, 1>, 16, f16x2(anylen(32)));
h_try_from_bv!(c19_q_tryfrom_f16x1_bvfix_pb, 4, Bvf<u16, 1>, 16, bvfix(anylen(24)));
h_try_from_bv!(c19_t_tryfrom_f8x1_f64x2_pb, 4, Bvf<u8, 1>, 8, f64x2(anylen(128)));
h_try_from_bv!(c19_t_tryfrom_f8x1_bvdyn3_pb, 4, Bvf<u8, 1>, 8, bvdyn3(anylen(192)));
h_try_from_bv!(c19_t_tryfrom_f8x2_f64x2_pb, 5, Bvf<u8, 2>, 16, f64x2(anylen(128)));
h_try_from_bv!(c19_t_tryfrom_f16x1_bvd2_pb, 4, Bvf<u16, 1>, 16, bvd2(anylen(128)));
h_try_from_bv!(c19_t_tryfrom_f8x3_f8x4_pb, 6, Bvf<u8, 3>, 24, f8x4(anylen(32)));
h_try_from_bv!(c19_t_tryfrom_f8x3_bvfix_pb, 6, Bvf<u8, 3>, 24, bvfix(anylen(128)));
