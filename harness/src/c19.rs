//! C19 harnesses (not written yet).
