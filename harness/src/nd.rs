//! Nondeterminism layer.
//!
//! Under Kani every draw is a `kani::any()` of a *primitive* type, so that the
//! concrete-playback output (one byte vector per primitive draw, in call order) can be
//! fed back, unchanged, to the native replay binary, where the same functions pop the
//! recorded byte vectors from a queue.

#[cfg(kani)]
mod imp {
    #[inline(always)]
    pub fn bool() -> bool {
        kani::any()
    }
    #[inline(always)]
    pub fn u8() -> u8 {
        kani::any()
    }
    #[inline(always)]
    pub fn u16() -> u16 {
        kani::any()
    }
    #[inline(always)]
    pub fn u32() -> u32 {
        kani::any()
    }
    #[inline(always)]
    pub fn u64() -> u64 {
        kani::any()
    }
    #[inline(always)]
    pub fn u128() -> u128 {
        kani::any()
    }
    #[inline(always)]
    pub fn usize() -> usize {
        kani::any()
    }
    #[inline(always)]
    pub fn assume(c: bool) {
        kani::assume(c)
    }
}

#[cfg(not(kani))]
mod imp {
    use std::cell::RefCell;
    use std::collections::VecDeque;

    thread_local! {
        static QUEUE: RefCell<VecDeque<Vec<u8>>> = RefCell::new(VecDeque::new());
    }

    /// Exit code used by the replay binary when the recorded values do not satisfy an
    /// assumption of the harness (= the recording does not belong to this harness).
    pub const EXIT_ASSUME: i32 = 3;
    /// Exit code used when the recording is too short / has the wrong shape.
    pub const EXIT_SHAPE: i32 = 4;

    pub fn load(draws: Vec<Vec<u8>>) {
        QUEUE.with(|q| *q.borrow_mut() = draws.into());
    }

    pub fn remaining() -> usize {
        QUEUE.with(|q| q.borrow().len())
    }

    fn next<const N: usize>() -> [u8; N] {
        let v = QUEUE.with(|q| q.borrow_mut().pop_front());
        match v {
            Some(v) if v.len() == N => {
                let mut a = [0u8; N];
                a.copy_from_slice(&v);
                a
            }
            Some(v) => {
                eprintln!("REPLAY-SHAPE: expected {} bytes, recording has {}", N, v.len());
                std::process::exit(EXIT_SHAPE)
            }
            None => {
                eprintln!("REPLAY-SHAPE: recording exhausted");
                std::process::exit(EXIT_SHAPE)
            }
        }
    }

    pub fn bool() -> bool {
        next::<1>()[0] & 1 == 1
    }
    pub fn u8() -> u8 {
        next::<1>()[0]
    }
    pub fn u16() -> u16 {
        u16::from_le_bytes(next::<2>())
    }
    pub fn u32() -> u32 {
        u32::from_le_bytes(next::<4>())
    }
    pub fn u64() -> u64 {
        u64::from_le_bytes(next::<8>())
    }
    pub fn u128() -> u128 {
        u128::from_le_bytes(next::<16>())
    }
    pub fn usize() -> usize {
        usize::from_le_bytes(next::<8>())
    }
    pub fn assume(c: bool) {
        if !c {
            eprintln!("REPLAY-ASSUME: recorded values violate a harness assumption");
            std::process::exit(EXIT_ASSUME)
        }
    }
}

pub use imp::*;

pub fn bit() -> bva::Bit {
    if bool() {
        bva::Bit::One
    } else {
        bva::Bit::Zero
    }
}

pub fn endianness() -> bva::Endianness {
    if bool() {
        bva::Endianness::Big
    } else {
        bva::Endianness::Little
    }
}

/// `usize` in `0..=max`.
pub fn upto(max: usize) -> usize {
    let x = usize();
    assume(x <= max);
    x
}

/// Vacuity witness: the driver requires every cover whose description does not start
/// with `NEVER:` to be SATISFIED.
#[macro_export]
macro_rules! w {
    ($c:expr, $d:literal) => {{
        #[cfg(kani)]
        kani::cover!($c, $d);
        #[cfg(not(kani))]
        {
            let _ = &$c;
        }
    }};
}

/// A point that must never be reached (used after a call that has to panic): the driver
/// requires every cover whose description starts with `NEVER:` (write the prefix in the
/// literal) to be UNSATISFIABLE / UNREACHABLE.
#[macro_export]
macro_rules! never {
    ($d:literal) => {{
        #[cfg(kani)]
        kani::cover!(true, $d);
        #[cfg(not(kani))]
        {
            eprintln!("REPLAY-NEVER-REACHED:{}", $d);
            std::process::exit(101);
        }
    }};
}
