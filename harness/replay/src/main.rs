//! Native replay of solver counterexamples: runs one harness body, compiled by the ordinary
//! toolchain against /repo, with the nondeterministic draws read from a file (one line of
//! hex per primitive draw, in call order).
//!
//! exit 0   harness body returned normally
//! exit 101 harness body panicked (assertion of the oracle or panic inside bva)
//! exit 3/4 the recording does not belong to this harness (assumption violated / shape)
include!(env!("BVAVERIF_REGISTRY"));

fn main() {
    let args: Vec<String> = std::env::args().collect();
    if args.len() != 3 {
        eprintln!("usage: replay <harness> <draws.hex>");
        std::process::exit(2);
    }
    let f = match lookup(&args[1]) {
        Some(f) => f,
        None => {
            eprintln!("unknown harness {}", args[1]);
            std::process::exit(2);
        }
    };
    let text = std::fs::read_to_string(&args[2]).expect("draws file");
    let mut draws = Vec::new();
    for line in text.lines() {
        let l = line.trim();
        let mut v = Vec::new();
        let b = l.as_bytes();
        let mut i = 0;
        while i + 1 < b.len() {
            v.push(u8::from_str_radix(&l[i..i + 2], 16).expect("hex"));
            i += 2;
        }
        draws.push(v);
    }
    bvaverif::nd::load(draws);
    f();
    println!("REPLAY-RETURNED-OK (unused draws: {})", bvaverif::nd::remaining());
}
