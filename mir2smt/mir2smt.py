#!/usr/bin/env python3
"""Engine S: the word primitives of /repo/src/utils.rs (mask, cadd, csub, wmul for
u8,u16,u32,u64,usize,u128), translated from rustc's MIR to SMT-LIB bit-vectors.

  1. the MIR is dumped from a scratch copy of /repo's *current* working tree
     (cargo +nightly rustc -- -Zunpretty=mir -C debug-assertions=off -C overflow-checks=on);
  2. each of the 24 function bodies is executed symbolically (they are loop-free: locals,
     casts, checked/unchecked binary operations, asserts, switchInt, a few known calls);
     anything the translator does not know is an error => inconclusive, never a pass;
  3. obligations: no MIR assert (overflow / shift range) can fail, and the post-condition
     of the primitive; each is one `check-sat` of the negation in z3 (unsat = holds for all
     2^w.. inputs), cross-checked with cvc5;
  4. a sat answer is replayed on the native build of the same source file
     (mir2smt/native, `#[path = "/repo/src/utils.rs"]`) before it is reported;
  5. translator validation (not a verdict): the term semantics are evaluated on random
     operands and compared with the native primitives.

Terms are tuples with two interpretations, `smt()` and `ev()`:
  ('c', w, value) ('v', name, w) ('op', name, w, args...)   bool = width 0
"""
import json
import os
import random
import re
import shutil
import subprocess
import sys
import tempfile
import time

REPO = os.environ.get("VERIF_REPO", "/repo")  # VERIF_REPO: development aid (check a copy)
HERE = os.path.dirname(os.path.abspath(__file__))
TYPES = {"u8": 8, "u16": 16, "u32": 32, "u64": 64, "usize": 64, "u128": 128, "i32": 32, "bool": 0}
PRIMS = ["u8", "u16", "u32", "u64", "usize", "u128"]
FUNCS = ["mask", "cadd", "csub", "wmul"]


class Unsupported(Exception):
    pass


# ------------------------------------------------------------------------------- terms
def C(w, v):
    return ("c", w, v & ((1 << w) - 1) if w else int(bool(v)))


def V(name, w):
    return ("v", name, w)


def width(t):
    return t[1] if t[0] == "c" else t[2]


def op(name, w, *args):
    # light constant folding keeps the formulas readable
    if all(a[0] == "c" for a in args) and name != "MUL":
        return C(w, ev(("op", name, w) + args, {}))
    return ("op", name, w) + args


def ev(t, env):
    k = t[0]
    if k == "c":
        return t[2]
    if k == "v":
        return env[t[1]]
    name, w, args = t[1], t[2], t[3:]
    m = (1 << w) - 1 if w else 1
    a = [ev(x, env) for x in args]
    if name == "add":
        return (a[0] + a[1]) & m
    if name == "sub":
        return (a[0] - a[1]) & m
    if name == "mul":
        return (a[0] * a[1]) & m
    if name == "MUL":  # abstract 128x128 -> 128 multiplication, concretely the real one
        return (a[0] * a[1]) & m
    if name == "and":
        return a[0] & a[1]
    if name == "or":
        return a[0] | a[1]
    if name == "shl":
        return (a[0] << a[1]) & m if a[1] < w else 0
    if name == "lshr":
        return a[0] >> a[1] if a[1] < w else 0
    if name == "udiv":
        return a[0] // a[1] if a[1] else m
    if name == "zext":
        return a[0]
    if name == "trunc":
        return a[0] & m
    if name == "ult":
        return int(a[0] < a[1])
    if name == "ule":
        return int(a[0] <= a[1])
    if name == "eq":
        return int(a[0] == a[1])
    if name == "not":
        return int(not a[0])
    if name == "andb":
        return int(a[0] and a[1])
    if name == "orb":
        return int(a[0] or a[1])
    if name == "imp":
        return int((not a[0]) or a[1])
    if name == "ite":
        return a[1] if a[0] else a[2]
    if name == "b2bv":
        return a[0]
    raise Unsupported("ev " + name)


def smt(t):
    k = t[0]
    if k == "c":
        if t[1] == 0:
            return "true" if t[2] else "false"
        return "(_ bv%d %d)" % (t[2], t[1])
    if k == "v":
        return t[1]
    name, w, args = t[1], t[2], t[3:]
    s = [smt(x) for x in args]
    two = {"add": "bvadd", "sub": "bvsub", "mul": "bvmul", "and": "bvand", "or": "bvor", "shl": "bvshl",
           "lshr": "bvlshr", "udiv": "bvudiv", "ult": "bvult", "ule": "bvule", "eq": "=", "andb": "and",
           "orb": "or", "imp": "=>", "MUL": "MUL"}
    if name in two:
        return "(%s %s %s)" % (two[name], s[0], s[1])
    if name == "zext":
        return "((_ zero_extend %d) %s)" % (w - width(args[0]), s[0])
    if name == "trunc":
        return "((_ extract %d 0) %s)" % (w - 1, s[0])
    if name == "not":
        return "(not %s)" % s[0]
    if name == "ite":
        return "(ite %s %s %s)" % (s[0], s[1], s[2])
    if name == "b2bv":
        return "(ite %s (_ bv1 %d) (_ bv0 %d))" % (s[0], w, w)
    raise Unsupported("smt " + name)


def resize(t, w):
    tw = width(t)
    if tw == 0:
        return op("b2bv", w, t)
    if tw == w:
        return t
    return op("zext", w, t) if tw < w else op("trunc", w, t)


def has_uf(t):
    return t[0] == "op" and (t[1] == "MUL" or any(has_uf(x) for x in t[3:]))


# ------------------------------------------------------------------------------- MIR parsing
def dump_mir():
    scratch = tempfile.mkdtemp(prefix="bva-mir-")
    try:
        for item in ("src", "Cargo.toml", "Cargo.lock"):
            s = os.path.join(REPO, item)
            d = os.path.join(scratch, item)
            if os.path.isdir(s):
                shutil.copytree(s, d)
            elif os.path.exists(s):
                shutil.copy(s, d)
        env = dict(os.environ, CARGO_NET_OFFLINE="true")
        env.pop("RUSTFLAGS", None)
        p = subprocess.run(["cargo", "+nightly", "rustc", "--offline", "--lib", "--", "-Zunpretty=mir",
                            "-C", "debug-assertions=off", "-C", "overflow-checks=on"],
                           cwd=scratch, env=env, capture_output=True, text=True, timeout=900)
        if p.returncode != 0 or "fn " not in p.stdout:
            raise Unsupported("MIR dump failed: " + p.stderr[-2000:])
        return p.stdout
    finally:
        shutil.rmtree(scratch, ignore_errors=True)


FN_RE = re.compile(r"^fn utils::<impl at src/utils\.rs:\d+:\d+: \d+:\d+>::(\w+)\((.*?)\) -> (.+?) \{$")


def parse_functions(mir):
    """{(type, fname): {'params': [(local, type)], 'ret': type, 'locals': {local: type}, 'blocks': {bb: [lines]}}}"""
    out = {}
    lines = mir.splitlines()
    i = 0
    while i < len(lines):
        m = FN_RE.match(lines[i])
        if not m:
            i += 1
            continue
        fname, params, ret = m.group(1), m.group(2), m.group(3)
        body = []
        i += 1
        depth = 1
        while i < len(lines) and depth > 0:
            depth += lines[i].count("{") - lines[i].count("}")
            body.append(lines[i])
            i += 1
        ps = []
        for p in re.findall(r"(_\d+): ([^,]+)", params):
            ps.append((p[0], p[1].strip()))
        selfty = ps[0][1].replace("&mut ", "").replace("&", "") if fname != "mask" else ret
        locs = dict(ps)
        locs["_0"] = ret
        blocks = {}
        cur = None
        for l in body:
            s = l.strip()
            lm = re.match(r"let (?:mut )?(_\d+): (.+);$", s)
            if lm:
                locs[lm.group(1)] = lm.group(2)
                continue
            bm = re.match(r"(bb\d+)(?: \(cleanup\))?: \{$", s)
            if bm:
                cur = bm.group(1)
                blocks[cur] = []
                continue
            if cur and s and s != "}" and not s.startswith(("debug ", "scope ", "let ")):
                blocks[cur].append(s)
        out[(selfty, fname)] = {"params": ps, "ret": ret, "locals": locs, "blocks": blocks}
    return out


# ------------------------------------------------------------------------------- symbolic execution
class Path:
    def __init__(self):
        self.env = {}        # local -> term | tuple of terms | ('ref', target)
        self.mem = {}        # pointee name -> term  (for *_1 and &mut locals)
        self.cond = []       # path condition terms (bool)
        self.asserts = []    # (description, cond_term) under self.cond at that point

    def clone(self):
        p = Path()
        p.env, p.mem, p.cond, p.asserts = dict(self.env), dict(self.mem), list(self.cond), list(self.asserts)
        return p


def tywidth(t):
    t = t.strip()
    if t in TYPES:
        return TYPES[t]
    raise Unsupported("type " + t)


def parse_const(txt):
    txt = txt.strip()
    m = re.fullmatch(r"(\d+)_(\w+)", txt)
    if m:
        return C(tywidth(m.group(2)), int(m.group(1)))
    m = re.fullmatch(r"core::num::<impl (\w+)>::BITS", txt)
    if m:
        return C(32, TYPES[m.group(1)])
    m = re.fullmatch(r"core::num::<impl (\w+)>::MAX", txt)
    if m:
        w = TYPES[m.group(1)]
        return C(w, (1 << w) - 1)
    m = re.fullmatch(r"<(\w+) as utils::Constants>::(ONE|ZERO)", txt)
    if m:
        return C(TYPES[m.group(1)], 1 if m.group(2) == "ONE" else 0)
    if txt in ("true", "false"):
        return C(0, txt == "true")
    raise Unsupported("const " + txt)


class Exec:
    def __init__(self, funcs, ty, uf_mul):
        self.funcs = funcs
        self.ty = ty
        self.uf_mul = uf_mul
        self.muls = []       # (a, b) argument terms of abstract MUL applications

    def read_place(self, p, place):
        place = place.strip()
        m = re.fullmatch(r"\((_\d+)\.(\d+): [^)]+\)", place)
        if m:
            v = p.env[m.group(1)]
            if not (isinstance(v, tuple) and v and v[0] == "tuple"):
                raise Unsupported("field of non-tuple " + place)
            return v[1 + int(m.group(2))]
        m = re.fullmatch(r"\(\*(_\d+)\)", place)
        if m:
            r = p.env[m.group(1)]
            return p.mem[r[1]]
        if re.fullmatch(r"_\d+", place):
            if place not in p.env:
                raise Unsupported("read of unassigned " + place)
            return p.env[place]
        raise Unsupported("place " + place)

    def operand(self, p, txt):
        txt = txt.strip()
        if txt.startswith("const "):
            return parse_const(txt[6:])
        if txt.startswith(("copy ", "move ")):
            return self.read_place(p, txt[5:])
        raise Unsupported("operand " + txt)

    def write_place(self, p, place, val):
        place = place.strip()
        m = re.fullmatch(r"\(\*(_\d+)\)", place)
        if m:
            p.mem[p.env[m.group(1)][1]] = val
            return
        if re.fullmatch(r"_\d+", place):
            p.env[place] = val
            # a local that something points to keeps its pointee in sync
            if place in p.mem:
                p.mem[place] = val
            return
        raise Unsupported("write place " + place)

    def binop(self, p, name, a, b, locals_, dst):
        wa = width(a)
        if name in ("Lt", "Le", "Eq", "Ne", "Gt", "Ge"):
            if width(b) != wa:
                raise Unsupported("comparison of different widths")
            t = {"Lt": op("ult", 0, a, b), "Le": op("ule", 0, a, b), "Eq": op("eq", 0, a, b),
                 "Ne": op("not", 0, op("eq", 0, a, b)), "Gt": op("ult", 0, b, a), "Ge": op("ule", 0, b, a)}[name]
            return t
        if name in ("Shl", "Shr", "ShlUnchecked", "ShrUnchecked"):
            amt = resize(b, wa)
            return op("shl" if name.startswith("Shl") else "lshr", wa, a, amt)
        if width(b) != wa:
            raise Unsupported("binop of different widths " + name)
        if name in ("BitAnd", "BitOr") and wa == 0:
            return op("andb" if name == "BitAnd" else "orb", 0, a, b)
        if name in ("BitAnd", "BitOr"):
            return op("and" if name == "BitAnd" else "or", wa, a, b)
        if name in ("Add", "Sub", "Mul", "AddUnchecked", "SubUnchecked", "MulUnchecked"):
            return op(name[:3].lower(), wa, a, b)
        if name == "Div":
            return op("udiv", wa, a, b)
        if name == "AddWithOverflow":
            s = op("add", wa, a, b)
            return ("tuple", s, op("ult", 0, s, a))
        if name == "SubWithOverflow":
            return ("tuple", op("sub", wa, a, b), op("ult", 0, a, b))
        if name == "MulWithOverflow":
            wide = op("mul", 2 * wa, resize(a, 2 * wa), resize(b, 2 * wa))
            ovf = op("not", 0, op("eq", 0, op("lshr", 2 * wa, wide, C(2 * wa, wa)), C(2 * wa, 0)))
            return ("tuple", op("mul", wa, a, b), ovf)
        raise Unsupported("binop " + name)

    def call(self, p, fn, argtxt, dst, locals_):
        args = [a.strip() for a in split_args(argtxt)]
        m = re.fullmatch(r"core::num::<impl (\w+)>::(\w+)", fn)
        if m:
            w = TYPES[m.group(1)]
            a = [self.operand(p, x) for x in args]
            f = m.group(2)
            if f == "overflowing_add":
                s = op("add", w, a[0], a[1])
                return ("tuple", s, op("ult", 0, s, a[0]))
            if f == "overflowing_sub":
                return ("tuple", op("sub", w, a[0], a[1]), op("ult", 0, a[0], a[1]))
            if f == "wrapping_sub":
                return op("sub", w, a[0], a[1])
            if f == "wrapping_add":
                return op("add", w, a[0], a[1])
            if f == "wrapping_mul":
                if self.uf_mul and w == 128:
                    self.muls.append((a[0], a[1]))
                    return op("MUL", w, a[0], a[1])
                return op("mul", w, a[0], a[1])
            raise Unsupported("call " + fn)
        m = re.fullmatch(r"<&(\w+) as BitAnd<(\w+)>>::bitand", fn)
        if m:
            r = self.operand(p, args[0])
            if not (isinstance(r, tuple) and r[0] == "ref"):
                raise Unsupported("bitand on non-reference")
            return op("and", TYPES[m.group(1)], p.mem[r[1]], self.operand(p, args[1]))
        m = re.fullmatch(r"<(\w+) as Integer>::(cadd|csub)", fn)
        if m:
            callee = self.funcs[(m.group(1), m.group(2))]
            r = self.operand(p, args[0])
            sub = Path()
            sub.cond = list(p.cond)
            pn = [x[0] for x in callee["params"]]
            target = "callee_self_%d" % len(p.asserts)
            sub.env[pn[0]] = ("ref", target)
            sub.mem[target] = p.mem[r[1]]
            sub.env[pn[1]] = self.operand(p, args[1])
            sub.env[pn[2]] = self.operand(p, args[2])
            outs = self.run(callee, sub)
            if len(outs) != 1:
                raise Unsupported("branching callee")
            o = outs[0]
            p.asserts += o.asserts
            p.mem[r[1]] = o.mem[target]
            if r[1] in p.env:
                p.env[r[1]] = o.mem[target]
            return o.env["_0"]
        raise Unsupported("call " + fn)

    def run(self, fn, p, bb="bb0", depth=0):
        if depth > 200:
            raise Unsupported("block budget exceeded (loop?)")
        for s in fn["blocks"][bb]:
            if s == "return;":
                return [p]
            m = re.fullmatch(r"goto -> (bb\d+);", s)
            if m:
                return self.run(fn, p, m.group(1), depth + 1)
            m = re.fullmatch(r"switchInt\((.+?)\) -> \[0: (bb\d+), otherwise: (bb\d+)\];", s)
            if m:
                c = self.operand(p, m.group(1))
                if width(c) != 0:
                    raise Unsupported("switchInt on non-bool")
                p0, p1 = p.clone(), p.clone()
                p0.cond.append(op("not", 0, c))
                p1.cond.append(c)
                return self.run(fn, p0, m.group(2), depth + 1) + self.run(fn, p1, m.group(3), depth + 1)
            m = re.fullmatch(r"assert\((!?)(.+?), \"(.*?)\".*\) -> \[success: (bb\d+), unwind continue\];", s)
            if m:
                c = self.operand(p, m.group(2))
                if m.group(1):
                    c = op("not", 0, c)
                p.asserts.append((m.group(3), conj(p.cond), c))
                p.cond.append(c)
                return self.run(fn, p, m.group(4), depth + 1)
            m = re.fullmatch(r"(.+?) = (.+?)\((.*)\) -> \[return: (bb\d+), unwind continue\];", s)
            if m and not re.match(r"(Lt|Le|Eq|Ne|Gt|Ge|Shl|Shr|BitAnd|BitOr|Add|Sub|Mul|Div|AddWithOverflow|SubWithOverflow|MulWithOverflow)$", m.group(2)):
                self.write_place(p, m.group(1), self.call(p, m.group(2).strip(), m.group(3), m.group(1), fn["locals"]))
                return self.run(fn, p, m.group(4), depth + 1)
            m = re.fullmatch(r"(.+?) = (.+);", s)
            if not m:
                raise Unsupported("statement " + s)
            dst, rv = m.group(1), m.group(2).strip()
            self.write_place(p, dst, self.rvalue(p, rv, fn["locals"], dst))
        raise Unsupported("block without terminator " + bb)

    def rvalue(self, p, rv, locals_, dst):
        m = re.fullmatch(r"(\w+)\((.+), (.+)\)", rv)
        if m and m.group(1)[0].isupper():
            return self.binop(p, m.group(1), self.operand(p, m.group(2)), self.operand(p, m.group(3)), locals_, dst)
        m = re.fullmatch(r"(.+) as (\w+) \(IntToInt\)", rv)
        if m:
            return resize(self.operand(p, m.group(1)), tywidth(m.group(2)))
        m = re.fullmatch(r"&(?:mut )?(_\d+)", rv)
        if m:
            p.mem[m.group(1)] = p.env[m.group(1)]
            return ("ref", m.group(1))
        m = re.fullmatch(r"\((.+), (.+)\)", rv)
        if m and not rv.startswith("(*") and not re.fullmatch(r"\(_\d+\.\d+: [^)]+\)", rv):
            return ("tuple", self.operand(p, m.group(1)), self.operand(p, m.group(2)))
        return self.operand(p, rv)


def split_args(txt):
    out, depth, cur = [], 0, ""
    for ch in txt:
        if ch in "(<[":
            depth += 1
        if ch in ")>]":
            depth -= 1
        if ch == "," and depth == 0:
            out.append(cur)
            cur = ""
        else:
            cur += ch
    if cur.strip():
        out.append(cur)
    return out


def conj(cs):
    t = C(0, 1)
    for c in cs:
        t = c if t == C(0, 1) else op("andb", 0, t, c)
    return t


# ------------------------------------------------------------------------------- obligations
def encode(funcs, ty, fname):
    """Symbolic run -> (inputs, [(name, formula_that_must_be_valid)], outputs per path, exec)."""
    fn = funcs[(ty, fname)]
    w = TYPES[ty]
    ex = Exec(funcs, ty, uf_mul=(ty == "u128" and fname == "wmul"))
    p = Path()
    inputs = []
    if fname == "mask":
        p.env["_1"] = V("n", 64)
        inputs = [("n", 64)]
    else:
        p.env["_1"] = ("ref", "self")
        p.mem["self"] = V("a", w)
        p.env["_2"] = V("r", w)
        inputs = [("a", w), ("r", w)]
        if fname in ("cadd", "csub"):
            p.env["_3"] = V("c", w)
            inputs.append(("c", w))
    paths = ex.run(fn, p)
    obl = []
    for pi, q in enumerate(paths):
        for ai, (desc, pc, c) in enumerate(q.asserts):
            obl.append(("%s::%s path %d: MIR assert %d cannot fail (%s)" % (ty, fname, pi, ai, desc[:40]),
                        op("imp", 0, pc, c)))
        pc = conj(q.cond)
        a, r, cc = V("a", w), V("r", w), V("c", w)
        if fname == "mask":
            n = V("n", 64)
            want = op("ite", w, op("ult", 0, n, C(64, w)),
                      op("sub", w, op("shl", w, C(w, 1), resize(n, w)), C(w, 1)), C(w, (1 << w) - 1))
            obl.append(("%s::mask path %d: result == 2^min(n,w) - 1" % (ty, pi), op("imp", 0, pc, op("eq", 0, q.env["_0"], want))))
        elif fname in ("cadd", "csub"):
            W = w + 2
            out, carry = q.mem["self"], q.env["_0"]
            za, zr, zc, zo, zk = [resize(x, W) for x in (a, r, cc, out, carry)]
            if fname == "cadd":
                lhs = op("add", W, zo, op("shl", W, zk, C(W, w)))
                rhs = op("add", W, op("add", W, za, zr), zc)
                what = "out + carry*2^w == a + r + c"
            else:
                lhs = op("sub", W, zo, op("shl", W, zk, C(W, w)))
                rhs = op("sub", W, op("sub", W, za, zr), zc)
                what = "out - borrow*2^w == a - r - c"
            obl.append(("%s::%s path %d: %s (in w+2 bits)" % (ty, fname, pi, what), op("imp", 0, pc, op("eq", 0, lhs, rhs))))
            obl.append(("%s::%s path %d: carry/borrow <= 2" % (ty, fname, pi), op("imp", 0, pc, op("ule", 0, carry, C(w, 2)))))
        elif fname == "wmul" and ty != "u128":
            lo, hi = q.env["_0"][1], q.env["_0"][2]
            W = 2 * w
            got = op("or", W, resize(lo, W), op("shl", W, resize(hi, W), C(W, w)))
            want = op("mul", W, resize(a, W), resize(r, W))
            obl.append(("%s::wmul path %d: lo + hi*2^w == a*b (in 2w bits)" % (ty, pi), op("imp", 0, pc, op("eq", 0, got, want))))
        else:  # u128::wmul with abstract 64x64 products
            lo, hi = q.env["_0"][1], q.env["_0"][2]
            M64 = C(128, (1 << 64) - 1)
            al, ah = op("and", 128, a, M64), op("lshr", 128, a, C(128, 64))
            bl, bh = op("and", 128, r, M64), op("lshr", 128, r, C(128, 64))
            want_args = [(al, bl), (ah, bl), (al, bh), (ah, bh)]
            if len(ex.muls) != 4:
                raise Unsupported("u128::wmul: expected four multiplications, found %d" % len(ex.muls))
            for k, ((x, y), (wx, wy)) in enumerate(zip(ex.muls, want_args)):
                obl.append(("u128::wmul: operands of product %d are the expected 64-bit halves" % k,
                            op("andb", 0, op("eq", 0, x, wx), op("eq", 0, y, wy))))
            P = [op("MUL", 128, x, y) for (x, y) in want_args]
            W = 256
            z = [resize(t, W) for t in P]
            exact = op("add", W, op("add", W, z[0], op("shl", W, op("add", W, z[1], z[2]), C(W, 64))),
                       op("shl", W, z[3], C(W, 128)))
            got = op("or", W, resize(lo, W), op("shl", W, resize(hi, W), C(W, 128)))
            obl.append(("u128::wmul: hi:lo == p0 + (p1+p2)*2^64 + p3*2^128 (256-bit, products abstract)",
                        op("imp", 0, pc, op("eq", 0, got, exact))))
    outs = []
    for q in paths:
        if fname == "mask":
            outs.append((conj(q.cond), [q.env["_0"]]))
        elif fname in ("cadd", "csub"):
            outs.append((conj(q.cond), [q.mem["self"], q.env["_0"]]))
        else:
            outs.append((conj(q.cond), [q.env["_0"][1], q.env["_0"][2]]))
    return inputs, obl, outs, ex


UF_PRELUDE = """(declare-fun MUL ((_ BitVec 128) (_ BitVec 128)) (_ BitVec 128))
; the only fact used about the abstract multiplier: 64-bit x 64-bit fits (2^64-1)^2
(assert (forall ((x (_ BitVec 128)) (y (_ BitVec 128)))
  (=> (and (bvule x #x0000000000000000ffffffffffffffff) (bvule y #x0000000000000000ffffffffffffffff))
      (bvule (MUL x y) #xfffffffffffffffe0000000000000001))))
"""


def script(inputs, formula, uf, instances=()):
    s = "(set-logic ALL)\n(set-option :produce-models true)\n"
    for n, w in inputs:
        s += "(declare-const %s (_ BitVec %d))\n" % (n, w)
    if uf:
        s += "(declare-fun MUL ((_ BitVec 128) (_ BitVec 128)) (_ BitVec 128))\n"
        # the bound axiom, instantiated at the four applications that occur (quantifier-free)
        for (x, y) in instances:
            s += ("(assert (=> (and (bvule %s #x0000000000000000ffffffffffffffff) (bvule %s #x0000000000000000ffffffffffffffff)) "
                  "(bvule (MUL %s %s) #xfffffffffffffffe0000000000000001)))\n") % (smt(x), smt(y), smt(x), smt(y))
    s += "(assert (not %s))\n(check-sat)\n" % smt(formula)
    s += "(get-value (%s))\n" % " ".join(n for n, _ in inputs)
    return s


def solve(solver, text, timeout):
    cmd = {"z3": ["z3", "-in", "-T:%d" % timeout], "cvc5": ["cvc5", "--lang", "smt2", "--tlimit=%d" % (timeout * 1000)]}[solver]
    t0 = time.time()
    try:
        p = subprocess.run(cmd, input=text, capture_output=True, text=True, timeout=timeout + 10)
        out = p.stdout + p.stderr
    except subprocess.TimeoutExpired:
        return "timeout", {}, time.time() - t0
    dt = time.time() - t0
    first = out.strip().splitlines()[0] if out.strip() else ""
    if "(error" in out and first != "sat" and first != "unsat":
        return "error", {}, dt
    if first == "unsat":
        # a parse problem after check-sat (get-value on unsat) is expected; one before it is not
        pre = out.split("unsat")[0]
        return ("error" if "(error" in pre else "unsat"), {}, dt
    if first == "sat":
        model = {}
        for m in re.finditer(r"\((\w+) (#x[0-9a-f]+|#b[01]+|\(_ bv(\d+) \d+\))\)", out):
            v = m.group(2)
            model[m.group(1)] = int(v[2:], 16) if v.startswith("#x") else int(v[2:], 2) if v.startswith("#b") else int(m.group(3))
        return "sat", model, dt
    return ("timeout" if "timeout" in out or "unknown" in out else "error"), {}, dt


# ------------------------------------------------------------------------------- native side
class Native:
    def __init__(self, build_dir):
        self.build_dir = build_dir
        self.bin = None

    def build(self):
        env = dict(os.environ, CARGO_NET_OFFLINE="true")
        env.pop("RUSTFLAGS", None)
        crate = os.path.join(HERE, "native")
        if REPO != "/repo":  # same crate with the repository path substituted
            alt = os.path.join(self.build_dir, "alt-native")
            os.makedirs(os.path.join(alt, "src"), exist_ok=True)
            for rel in ("Cargo.toml", os.path.join("src", "main.rs")):
                open(os.path.join(alt, rel), "w").write(open(os.path.join(crate, rel)).read().replace('"/repo', '"' + REPO))
            crate = alt
        p = subprocess.run(["cargo", "build", "--release", "--offline", "--target-dir", self.build_dir],
                           cwd=crate, env=env, capture_output=True, text=True, timeout=1800)
        if p.returncode != 0:
            raise Unsupported("native primitive runner failed to build: " + p.stderr[-1500:])
        self.bin = os.path.join(self.build_dir, "release", "primnative")

    def run(self, reqs):
        text = "".join("%s %s %s\n" % (ty, f, " ".join("%x" % a for a in args)) for ty, f, args in reqs)
        p = subprocess.run([self.bin], input=text, capture_output=True, text=True, timeout=600)
        res = []
        for l in p.stdout.splitlines():
            res.append(None if l.strip() == "PANIC" else [int(x, 16) for x in l.split()])
        return res


def spec_value(ty, f, args):
    """Mathematical specification on Python integers: expected outputs, or None = must not matter."""
    w = TYPES[ty]
    m = (1 << w) - 1
    if f == "mask":
        return [(1 << min(args[0], w)) - 1]
    if f == "cadd":
        t = args[0] + args[1] + args[2]
        return [t & m, t >> w]
    if f == "csub":
        t = args[0] - args[1] - args[2]
        return [t & m, (-(t >> w)) if t < 0 else 0]
    t = args[0] * args[1]
    return [t & m, t >> w]


def rand_operand(rng, w):
    k = rng.randrange(6)
    if k == 0:
        return rng.choice([0, 1, (1 << w) - 1, (1 << w) - 2, 1 << (w - 1), (1 << (w // 2)) - 1, 1 << (w // 2)])
    if k == 1:
        return rng.getrandbits(w) & ((1 << rng.randrange(1, w + 1)) - 1)
    return rng.getrandbits(w)


# ------------------------------------------------------------------------------- driver
def main():
    import argparse
    ap = argparse.ArgumentParser()
    ap.add_argument("--json", default=None)
    ap.add_argument("--build-dir", default="/verif/.build/main/primnative")
    ap.add_argument("--timeout", type=int, default=120)
    ap.add_argument("--samples", type=int, default=300)
    ap.add_argument("--seed", type=int, default=0)
    ap.add_argument("--replay-dir", default="/verif/replays/C01")
    args = ap.parse_args()
    t0 = time.time()
    report = {"engine": "mir2smt + z3 %s (cross-check: cvc5)" % subprocess.run(["z3", "--version"], capture_output=True, text=True).stdout.strip(),
              "functions": [], "obligations": [], "violations": [], "inconclusive": [], "validation": {}}
    try:
        funcs = parse_functions(dump_mir())
        native = Native(args.build_dir)
        native.build()
    except Unsupported as e:
        report["inconclusive"].append("setup: %s" % e)
        return finish(report, args, t0)
    rng = random.Random(args.seed)
    for ty in PRIMS:
        for f in FUNCS:
            key = "%s::%s" % (ty, f)
            if (ty, f) not in funcs:
                report["inconclusive"].append(key + ": not found in the MIR dump")
                continue
            try:
                inputs, obl, outs, ex = encode(funcs, ty, f)
            except (Unsupported, KeyError) as e:
                report["inconclusive"].append("%s: translator: %s" % (key, e))
                continue
            report["functions"].append(key)
            uf = ty == "u128" and f == "wmul"
            # ---- translator validation on random operands (native vs term semantics)
            reqs = []
            for _ in range(args.samples):
                if f == "mask":
                    a = [rng.choice([0, 1, TYPES[ty] - 1, TYPES[ty], TYPES[ty] + 1, 2 ** 64 - 1, rng.randrange(0, 200)])]
                else:
                    a = [rand_operand(rng, TYPES[ty]) for _ in inputs]
                reqs.append((ty, f, a))
            nat = native.run(reqs)
            bad = 0
            for (ty_, f_, a), got in zip(reqs, nat):
                env = dict(zip([n for n, _ in inputs], a))
                mine = None
                panics = any(ev(pc, env) and not ev(c, env) for q in [None] for (d, pc, c) in []) if False else None
                for pc, vals in outs:
                    if ev(pc, env):
                        mine = [ev(v, env) for v in vals]
                # asserts: the native build has overflow checks too
                if got is None:
                    bad += 0 if mine is None else 0  # a native panic is judged by the obligations, not here
                    continue
                if mine != got:
                    bad += 1
            report["validation"][key] = {"samples": len(reqs), "mismatches": bad}
            if bad:
                report["inconclusive"].append("%s: translator disagrees with the native primitive on %d random inputs" % (key, bad))
                continue
            # ---- obligations
            for name, formula in obl:
                text = script(inputs, formula, uf, ex.muls if uf else ())
                st, model, dt = solve("z3", text, args.timeout)
                rec = {"obligation": name, "z3": st, "z3_s": round(dt, 3)}
                if st == "unsat":
                    st2, _, dt2 = solve("cvc5", text, args.timeout)
                    rec["cvc5"] = st2
                    rec["cvc5_s"] = round(dt2, 3)
                    if st2 == "sat":
                        report["inconclusive"].append("%s: solvers disagree" % name)
                elif st == "sat":
                    a = [model.get(n, 0) for n, _ in inputs]
                    got = native.run([(ty, f, a)])[0]
                    want = spec_value(ty, f, a)
                    rec["counterexample"] = {n: hex(v) for (n, _), v in zip(inputs, a)}
                    rec["native"] = None if got is None else [hex(x) for x in got]
                    rec["spec"] = [hex(x) for x in want]
                    if uf and got == want:
                        # a model of the abstract multiplier need not be the real one: look for a
                        # real failing input natively (boundary lattice + random), only to obtain a
                        # replayable witness for what the solver refuted under the abstraction
                        lat = [0, 1, 2, (1 << 64) - 1, 1 << 64, (1 << 64) + 1, (1 << 127), (1 << 128) - 1, (1 << 128) - 2,
                               ((1 << 64) - 1) << 64, (1 << 127) - 1]
                        cands = [[x, y] for x in lat for y in lat] + [[rand_operand(rng, 128), rand_operand(rng, 128)] for _ in range(20000)]
                        for cand, g in zip(cands, native.run([(ty, f, c_) for c_ in cands])):
                            if g is None or g != spec_value(ty, f, cand):
                                a, got, want = cand, g, spec_value(ty, f, cand)
                                rec["counterexample"] = {n: hex(v) for (n, _), v in zip(inputs, a)}
                                rec["native"] = None if got is None else [hex(x) for x in got]
                                rec["spec"] = [hex(x) for x in want]
                                rec["witness_found_by"] = "native search after the solver refuted the obligation under the multiplier abstraction"
                                break
                    if got is None or got != want:
                        os.makedirs(args.replay_dir, exist_ok=True)
                        path = os.path.join(args.replay_dir, "prim_%s_%s.json" % (ty, f))
                        json.dump({"property": "C01", "engine": "mir2smt", "primitive": key, "obligation": name,
                                   "inputs": rec["counterexample"], "native_result": rec["native"], "specified": rec["spec"],
                                   "replay": "echo '%s %s %s' | %s" % (ty, f, " ".join("%x" % x for x in a), native.bin)},
                                  open(path, "w"), indent=1)
                        rec["replay"] = path
                        report["violations"].append(rec)
                    else:
                        report["inconclusive"].append("%s: solver counterexample does not reproduce natively (translator or spec wrong)" % name)
                else:
                    report["inconclusive"].append("%s: z3 %s" % (name, st))
                report["obligations"].append(rec)
    return finish(report, args, t0)


def finish(report, args, t0):
    report["wall_s"] = round(time.time() - t0, 1)
    n = len(report["obligations"])
    ok = sum(1 for o in report["obligations"] if o["z3"] == "unsat" and o.get("cvc5") in ("unsat", "timeout", "error"))
    report["discharged"] = ok
    if args.json:
        json.dump(report, open(args.json, "w"), indent=1)
    print("mir2smt: %d functions, %d obligations, %d discharged, %d violations, %d inconclusive, %.1fs"
          % (len(report["functions"]), n, ok, len(report["violations"]), len(report["inconclusive"]), report["wall_s"]))
    for v in report["violations"]:
        print("VIOLATION-CANDIDATE", v["obligation"], v.get("counterexample"), "replay=" + v.get("replay", ""))
    for i in report["inconclusive"]:
        print("INCONCLUSIVE", i)
    if report["violations"]:
        return 1
    if report["inconclusive"] or ok != n or n == 0:
        return 2
    return 0


if __name__ == "__main__":
    sys.exit(main())
