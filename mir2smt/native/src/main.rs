//! Native execution of the real word primitives of /repo/src/utils.rs (the source file itself
//! is compiled into this binary through `#[path]`; nothing is re-implemented). Used by
//! mir2smt.py to (a) replay solver counterexamples and (b) validate the MIR translator on
//! random operands. One request per stdin line: `<type> <fn> <hex args...>`; one reply line:
//! hex results, or `PANIC` if the primitive panicked (overflow check).
#![allow(dead_code, unused_imports)]
pub use bva::Bit; // `use crate::Bit;` inside utils.rs resolves to this

#[path = "/repo/src/utils.rs"]
mod utils;

use std::io::{BufRead, Write};
use utils::Integer;

macro_rules! dispatch {
    ($t:ty, $f:expr, $a:expr) => {{
        let p = |i: usize| -> $t { <$t>::from_str_radix(&$a[i], 16).expect("hex operand") };
        match $f {
            "mask" => {
                let n = usize::from_str_radix(&$a[0], 16).expect("hex operand");
                format!("{:x}", <$t as Integer>::mask(n))
            }
            "cadd" => {
                let mut x = p(0);
                let c = x.cadd(p(1), p(2));
                format!("{:x} {:x}", x, c)
            }
            "csub" => {
                let mut x = p(0);
                let c = x.csub(p(1), p(2));
                format!("{:x} {:x}", x, c)
            }
            "wmul" => {
                let (lo, hi) = p(0).wmul(p(1));
                format!("{:x} {:x}", lo, hi)
            }
            _ => "UNKNOWN".to_string(),
        }
    }};
}

fn main() {
    std::panic::set_hook(Box::new(|_| {}));
    let stdin = std::io::stdin();
    let out = std::io::stdout();
    let mut out = out.lock();
    for line in stdin.lock().lines() {
        let line = line.unwrap();
        let parts: Vec<String> = line.split_whitespace().map(|s| s.to_string()).collect();
        if parts.len() < 3 {
            continue;
        }
        let (ty, f, args) = (parts[0].clone(), parts[1].clone(), parts[2..].to_vec());
        let r = std::panic::catch_unwind(move || match ty.as_str() {
            "u8" => dispatch!(u8, f.as_str(), args),
            "u16" => dispatch!(u16, f.as_str(), args),
            "u32" => dispatch!(u32, f.as_str(), args),
            "u64" => dispatch!(u64, f.as_str(), args),
            "usize" => dispatch!(usize, f.as_str(), args),
            "u128" => dispatch!(u128, f.as_str(), args),
            _ => "UNKNOWN".to_string(),
        });
        writeln!(out, "{}", r.unwrap_or_else(|_| "PANIC".to_string())).unwrap();
    }
}
