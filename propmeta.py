"""Static, per-property descriptions copied into the evidence files: scopes/bounds, what
lies outside them, assumptions and stubs. Counts in the evidence are measured at run time;
nothing here is a count."""

COMMON_ASSUMPTIONS = [
    "rustc -> MIR (Kani's pinned nightly), Kani's MIR -> goto translation and std models, CBMC + CaDiCaL are sound",
    "pre-states are arbitrary states satisfying the representation invariant Inv (len <= capacity, every storage "
    "bit at index >= len zero, spare words included), built with the public Bvf::new / Bvd::new / Bv::Fixed / "
    "Bv::Dynamic constructors; states with dirty padding built through new() are outside the histories quantifier",
    "generic code is checked for the listed instantiations only",
    "allocation sizes are concrete per harness (number of Bvd storage words); lengths and contents are symbolic",
]



def needs_stubbing(features):
    return any(f.upper() in STUBBING for f in features)


import json as _json
import os as _os

META = {}
_d = _os.path.join(_os.path.dirname(_os.path.abspath(__file__)), "meta")
if _os.path.isdir(_d):
    for _f in sorted(_os.listdir(_d)):
        if _f.endswith(".json"):
            META[_f[:-5]] = _json.load(open(_os.path.join(_d, _f)))
STUBBING = {k for k, v in META.items() if v.get("needs_stubbing")}
