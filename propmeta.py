"""Static, per-property descriptions copied into the evidence files: scopes/bounds, what
lies outside them, assumptions and stubs. Counts in the evidence are measured at run time;
nothing here is a count."""

COMMON_ASSUMPTIONS = [
    "rustc -> MIR (Kani's pinned nightly), Kani's MIR -> goto translation and std models, CBMC + CaDiCaL are sound",
    "pre-states are arbitrary states satisfying the representation invariant Inv (len <= capacity, every storage "
    "bit at index >= len zero, spare words included), built with the public Bvf::new / Bvd::new / Bv::Fixed / "
    "Bv::Dynamic constructors; states with dirty padding built through new() are outside the histories quantifier",
    "generic code is checked for the listed instantiations only",
    "allocation sizes are concrete per harness (number of Bvd storage words); lengths and contents are symbolic",
]

STUBBING = set()  # properties whose harnesses need `-Z stubbing`


def needs_stubbing(features):
    return any(f.upper() in STUBBING for f in features)


META = {
    "C04": {
        "bounds": "lhs: Bvf<u8,2|3>, Bvf<u16,2>, Bvf<u64,2>, (thorough: Bvf<u32,2>, Bvf<usize,2>, Bvf<u128,2>, Bvf<u64,3>), "
                  "Bvd with 2 (thorough: 1,3) allocated words incl. spare words, Bv in inline and heap mode; rhs: the same "
                  "families incl. longer rhs, other word types, all six native unsigned types; every length 0..=capacity "
                  "(Bvd: 0..=64*words) and every value, symbolic; unwind 4..9 with unwinding assertions. `!&Bvd` allocates "
                  "by length: lengths {0,1,63,64,65,128,130,192} concrete in quick, symbolic 0..=128 in thorough.",
        "outside": "vectors longer than 256 bits, Bvf instantiations not listed, Bvd with more than 3 allocated words",
        "assumptions": [],
        "stubs": [],
    },
}
